"""C20 - spatial indexes equal a linear scan; curves and enumerations are bijections.

R1  TLC checks the theorems of the specifications themselves: the constructive query answers of
    SpatialIndex.tla (sort / take / filter) meet the declarative definitions and are monotone in k;
    Combin.tla's constructive enumerations are the lexicographic ones and rank/unrank are mutually
    inverse and order preserving.
R2  spec->code: TLC prints every history (bulk construction + insertions) over a small lattice with
    the answers of all queries; the harness replays each on kdtree (kdtree.Points and a hand written
    Comparable/Interface, every bounding mode) and vptree (several efforts) and compares exactly.
    TLC prints the enumerations / index maps of Combin.tla; the harness compares stat/combin with them.
R3  code->spec: Hilbert tables and answers of the real trees on large lattice point sets are
    recorded and judged by TLC against HilbertTrace.tla / SpatialIndexTrace.tla.
"""
import json
import os
import random
import shutil

HERE = os.path.dirname(os.path.abspath(__file__))
SPECS = os.path.join(HERE, "..", "..", "specs")
OFF = 8


def enc_set(vals):
    return "{" + ",".join(str(v) for v in sorted(vals)) + "}"


def qcode(q):
    c = 0
    for x in q:
        assert 0 <= x + OFF < 64
        c = c * 64 + (x + OFF)
    return c


def universe(dim, lo, hi):
    pts = [[]]
    for _ in range(dim):
        pts = [p + [x] for p in pts for x in range(lo, hi + 1)]
    return pts


def queries(rng, dim, coords, nsample):
    """Query points (actual coordinates): the whole grid around the lattice when it is small, else a
    seeded sample of it that always holds a lattice corner, a cell centre, an outside and far points."""
    lo, hi = min(coords) - 1, max(coords) + 1
    uni = universe(dim, lo, hi)
    far = [[41] + [coords[0]] * (dim - 1), [-7] * dim]
    if len(uni) <= nsample:
        qs = uni
    else:
        fixed = [[coords[0]] * dim, [coords[0] + 1] * dim, [lo] + [coords[-1]] * (dim - 1), [coords[-1]] * dim]
        rest = [q for q in uni if q not in fixed]
        qs = fixed + rng.sample(rest, nsample - len(fixed))
    return qs + far


# name, dim, actual coords, MaxBuilt, MaxTotal, sampled queries, reps, tier
INDEX = [
    ("1d-4x5", 1, [0, 2, 4, 6], 4, 5, 16, 2, "quick"),
    ("2d-9x4", 2, [0, 2, 4], 3, 4, 8, 1, "quick"),
    ("3d-8x4", 3, [0, 2], 3, 4, 8, 1, "quick"),
    ("2d-16x3", 2, [0, 2, 4, 6], 3, 3, 10, 2, "thorough"),
    ("2d-4x6", 2, [0, 2], 4, 6, 16, 2, "thorough"),
    ("3d-27x3", 3, [0, 2, 4], 3, 3, 10, 2, "thorough"),
    ("4d-16x3", 4, [0, 2], 3, 3, 10, 2, "thorough"),
]
KS = [1, 2, 3, 5]
RS = [0, 1, 2, 4, 5, 8, 9, 13, 16]
ALLINV = "SortOK NearestOK KNearestOK KMonotone WithinOK Unique BoxOK"


def index_subst(rng, dim, coords, mb, mt, nq, emit, invs):
    qs = queries(rng, dim, coords, nq)
    return dict(DIM=dim, COORDS=enc_set([c + OFF for c in coords]), OFF=OFF, MAXBUILT=mb, MAXTOTAL=mt,
                QCODES=enc_set({qcode(q) for q in qs}), KS=enc_set(KS), RS=enc_set(RS),
                EMIT="TRUE" if emit else "FALSE", INVS=invs)


def spatial_index(ctx, bins, thorough):
    # R1: theorems of the specification over every history in a bound, all grid queries
    rng = random.Random(ctx.seed)
    ctx.tlc("spatial/SpatialIndex.tla", "spatial/SpatialIndex_model.cfg", name="R1 SpatialIndex 2d, 9 lattice points, <=3 stored",
            subst=index_subst(rng, 2, [0, 2, 4], 3, 3, 49, False, ALLINV), workers=4)
    ctx.tlc("spatial/SpatialIndex.tla", "spatial/SpatialIndex_model.cfg", name="R1 SpatialIndex 1d, 4 lattice points, <=5 stored",
            subst=index_subst(rng, 1, [0, 2, 4, 6], 4, 5, 16, False, ALLINV), workers=4)
    # R2: every history, replayed
    for name, dim, coords, mb, mt, nq, reps, tier in INDEX:
        if tier == "thorough" and not thorough:
            continue
        rng = random.Random(ctx.seed * 1000 + dim)
        cases = ctx.gen("spatial/SpatialIndex.tla", "spatial/SpatialIndex_model.cfg", name="R2 gen index " + name,
                        subst=index_subst(rng, dim, coords, mb, mt, nq, True, "EmitState"))
        for bn, b in bins.items():
            ctx.replay(b, "spatial-index", cases, ["impls=kd-points,kd-custom,vp", "reps=%d" % (reps + (1 if thorough else 0))],
                       name="R2 replay index %s [%s]" % (name, bn))


def run(ctx):
    os.makedirs(os.path.join(SPECS, "lib"), exist_ok=True)
    thorough = ctx.tier == "thorough"
    bins = {"default": ctx.build("")}
    if thorough:
        bins["noasm"] = ctx.build("noasm")

    spatial_index(ctx, bins, thorough)

    ctx.assumptions += [
        "TLC/SANY and the CommunityModules Json module are trusted",
        "the harness's operand builders, exact float comparison and multiset comparison are trusted",
        "vptree distances: the harness maps the spec's exact squared integer distance d2 to math.Sqrt(float64(d2)), "
        "the correctly rounded value the implementation must report on lattice points",
        "kdtree bulk construction draws pivots from the unseedable global math/rand/v2 source: a history is "
        "replayed under several constructions, which ones is not reproducible",
    ]
    return ctx.finish(
        rule="R2 index: one case = one history (bulk construction from <= MaxBuilt lattice points, then insertions, "
             "every sequence in the bound) with the answers of all its queries, replayed on every implementation "
             "variant; non-trivial = at least two stored points.",
        exhaustive=True)


def replay(ctx, path):
    os.makedirs(os.path.join(SPECS, "lib"), exist_ok=True)
    d = json.load(open(path))["data"]
    if "trace" in d:
        ok, st = ctx.validate(d["spec"], d["cfg_file"], d["trace"], subst=d.get("cfg", {}))
        print("trace accepted" if ok else "trace rejected: " + st.get("detail", "")[:800])
        if not ok:
            print("VIOLATION property=C20 replay=%s" % path)
        return 0 if ok else 1
    one = os.path.join(ctx.work, "one.ndjson")
    with open(one, "w") as fh:
        fh.write(json.dumps(d["failure"]["case"]) + "\n")
    ctx.replay(ctx.build(""), d["area"], one, d["args"], confirm=False)
    return ctx.finish()
