"""C20 - spatial indexes equal a linear scan; curves and enumerations are bijections.

R1  TLC checks the theorems of the specifications themselves: the constructive query answers of
    SpatialIndex.tla (sort / take / filter) meet the declarative definitions and are monotone in k;
    Combin.tla's constructive enumerations are the lexicographic ones and rank/unrank are mutually
    inverse and order preserving.
R2  spec->code: TLC prints every history (bulk construction + insertions) over a small lattice with
    the answers of all queries; the harness replays each on kdtree (kdtree.Points and hand written user types:
    Extender / plain Comparable elements in collections that are / are not Bounders; every bounding flag; the
    specification says which mode - bounded, unbounded, stale - the tree is in and what its stored volumes must
    satisfy) and vptree (vptree.Point and a user type, several efforts) and compares exactly.
    TLC prints the enumerations / index maps of Combin.tla; the harness compares stat/combin with them.
    CombinBig.tla does the same beyond 32 bits (its own digit-sequence arithmetic, checked against TLC's integers;
    closed index formulas checked against the explicit enumerations for small n, then used for n <= 20 / 62 / 2^63).
R3  code->spec: Hilbert tables and answers of the real trees on large lattice point sets are
    recorded and judged by TLC against HilbertTrace.tla / SpatialIndexTrace.tla.
Far coordinates (SpatialIndex.tla, Far = TRUE): the same R1 / R2 / R3 stages over point sets that mix coordinates of the
    magnitudes 1, 2^500 and 2^600, where a squared distance is a small integer, an exact multiple of 2^1000 or +Inf (extended
    values, +Inf greatest): k-nearest still returns min(k, N) points, a ball of radius +Inf everything.
Barnes-Hut: BarnesHut.tla (single particle lists, theta = 0) and BarnesHutHist.tla (histories of one Plane / Volume
    object: R1 theorems, R2 every maximal history in a bound replayed, R3 recorded long histories judged by
    BarnesHutHistTrace.tla).
"""
import json
import os
import random
import shutil

HERE = os.path.dirname(os.path.abspath(__file__))
SPECS = os.path.join(HERE, "..", "..", "specs")
OFF = 8


def enc_set(vals):
    return "{" + ",".join(str(v) for v in sorted(vals)) + "}"


def qcode(q, off=OFF):
    c = 0
    for x in q:
        assert 0 <= x + off < 64
        c = c * 64 + (x + off)
    return c


def universe(dim, lo, hi):
    pts = [[]]
    for _ in range(dim):
        pts = [p + [x] for p in pts for x in range(lo, hi + 1)]
    return pts


def queries(rng, dim, coords, nsample):
    """Query points (actual coordinates): the whole grid around the lattice when it is small, else a
    seeded sample of it that always holds a lattice corner, a cell centre, an outside and far points."""
    lo, hi = min(coords) - 1, max(coords) + 1
    uni = universe(dim, lo, hi)
    far = [[41] + [coords[0]] * (dim - 1), [-7] * dim]
    if len(uni) <= nsample:
        qs = uni
    else:
        fixed = [[coords[0]] * dim, [coords[0] + 1] * dim, [lo] + [coords[-1]] * (dim - 1), [coords[-1]] * dim]
        rest = [q for q in uni if q not in fixed]
        qs = fixed + rng.sample(rest, nsample - len(fixed))
    return qs + far


# name, dim, actual coords, MaxBuilt, MaxTotal, sampled queries, reps, tier
INDEX = [
    ("1d-4x5", 1, [0, 2, 4, 6], 4, 5, 16, 2, "quick"),
    ("2d-9x4", 2, [0, 2, 4], 3, 4, 8, 1, "quick"),
    ("3d-8x4", 3, [0, 2], 3, 4, 8, 1, "quick"),
    ("2d-16x3", 2, [0, 2, 4, 6], 3, 3, 10, 2, "thorough"),
    ("2d-4x6", 2, [0, 2], 4, 6, 16, 2, "thorough"),
    ("3d-27x3", 3, [0, 2, 4], 3, 3, 10, 2, "thorough"),
    ("4d-16x3", 4, [0, 2], 3, 3, 10, 2, "thorough"),
]
KS = [1, 2, 3, 5]
RS = [0, 1, 2, 4, 5, 8, 9, 13, 16, 25, 36]
ALLINV = "SortOK NearestOK KNearestOK KMonotone WithinOK Unique BoxOK BoxScanOK ModeOK VolumeLemma"
# k-d trees over kdtree.Points and over user types: Extender / plain Comparable elements in collections that are / are not
# Bounders; vantage point trees over vptree.Point and a user type
IMPLS = "impls=kd-points,kd-custom,kd-ext-nb,kd-plain,kd-plain-nb,vp,vp-custom"


def box_corners(dim, coords):
    """Corner points of the DoBounded query boxes (every pair lo <= hi of them is a box): lattice corners (faces of
    the box pass through stored points: ties on the splitting planes), a point between lattice points, one outside."""
    lo, hi = coords[0], coords[-1]
    mid = coords[len(coords) // 2]
    cs = [[lo] * dim, [hi] * dim, [mid] * dim, [lo + 1] * dim, [lo - 1] * dim, [hi + 1] * dim]
    if dim > 1:
        cs += [[lo] + [hi] * (dim - 1), [mid] + [lo] * (dim - 1)]
    return cs


def index_subst(rng, dim, coords, mb, mt, nq, emit, invs):
    qs = queries(rng, dim, coords, nq)
    return dict(BOXES=enc_set({qcode(c) for c in box_corners(dim, coords)}),DIM=dim, COORDS=enc_set([c + OFF for c in coords]), OFF=OFF, MAXBUILT=mb, MAXTOTAL=mt,
                QCODES=enc_set({qcode(q) for q in qs}), KS=enc_set(KS), RS=enc_set(RS),
                EMIT="TRUE" if emit else "FALSE", INVS=invs, FAR="FALSE")


# ---- far coordinates (SpatialIndex.tla, Far = TRUE) -----------------------------------------------------------
# A coordinate code a stands for a (|a| <= 8), sgn(a)(|a|-8) 2^500 (9..15) or sgn(a)(|a|-16) 2^600 (17..23); a squared
# distance is the extended value v | v 2^1000 | +Inf, coded lev * 4096 + v (the specification's FarDist2).
FAR_OFF = 32
FAR_DB = 4096
# squared radii: 0, small, multiples of 2^1000, +Inf
FAR_RS = [0, 1, 4, 5, FAR_DB + 1, FAR_DB + 2, FAR_DB + 4, FAR_DB + 5, 2 * FAR_DB]
# name, dim, coordinate codes, MaxBuilt, MaxTotal, reps, tier
FAR_INDEX = [
    ("far-1d-5x4", 1, [-17, 0, 2, 9, 17], 3, 4, 1, "quick"),
    ("far-2d-9x3", 2, [0, 9, 17], 2, 3, 1, "quick"),
    ("far-1d-7x4", 1, [-17, -9, 0, 2, 9, 10, 17], 3, 4, 2, "thorough"),
    ("far-2d-16x3", 2, [0, 2, 9, 17], 2, 3, 2, "thorough"),
    ("far-2d-4x5", 2, [0, 17], 3, 5, 2, "thorough"),
    ("far-3d-8x4", 3, [0, 10], 3, 4, 2, "thorough"),
]


def far_queries(dim, coords):
    """Query points (coordinate codes): on stored values, between near ones, at other multiples of the level units,
    beyond the largest stored value, on the diagonal and with one far component only."""
    vals = sorted(set(coords) | {1, 10, 18, -9})
    if dim == 1:
        return [[v] for v in vals]
    qs = [[v] * dim for v in vals]
    qs += [[v] + [coords[0]] * (dim - 1) for v in vals]
    qs += [[coords[-1]] * (dim - 1) + [v] for v in (1, 10, 18)]
    out = []
    for q in qs:
        if q not in out:
            out.append(q)
    return out


def far_subst(dim, coords, mb, mt, emit, invs):
    lo, hi, mid = min(coords), max(coords), sorted(coords)[len(coords) // 2]
    corners = [[v] * dim for v in (lo, hi, mid, 0, 1, 9, 23, -23)]
    if dim > 1:
        corners += [[lo] + [hi] * (dim - 1), [mid] + [lo] * (dim - 1)]
    return dict(BOXES=enc_set({qcode(c, FAR_OFF) for c in corners}), DIM=dim, COORDS=enc_set([c + FAR_OFF for c in coords]),
                OFF=FAR_OFF, MAXBUILT=mb, MAXTOTAL=mt, QCODES=enc_set({qcode(q, FAR_OFF) for q in far_queries(dim, coords)}),
                KS=enc_set(KS), RS=enc_set(FAR_RS), EMIT="TRUE" if emit else "FALSE", INVS=invs, FAR="TRUE")


def spatial_index(ctx, bins, thorough):
    # R1: theorems of the specification over every history in a bound, all grid queries
    rng = random.Random(ctx.seed)
    s1 = index_subst(rng, 2, [0, 2, 4], 3, 3, 49 if thorough else 9, False, ALLINV)
    s2 = index_subst(rng, 1, [0, 2, 4, 6], 4, 5 if thorough else 4, 16, False, ALLINV)
    thunks = [lambda: ctx.tlc("spatial/SpatialIndex.tla", "spatial/SpatialIndex_model.cfg", subst=s1, workers=2,
                              name="R1 SpatialIndex 2d, 9 lattice points, <=3 stored"),
              lambda: ctx.tlc("spatial/SpatialIndex.tla", "spatial/SpatialIndex_model.cfg", subst=s2, workers=2,
                              name="R1 SpatialIndex 1d, 4 lattice points, <=%d stored" % (5 if thorough else 4))]
    # far coordinates: the rounding lemma behind the extended distances (one state), and the same theorems over
    # every history of far points in a bound
    s3 = far_subst(1, [0], 0, 0, False, "FarLemma")
    s4 = far_subst(1, [-17, 0, 9, 17], 3, 4 if thorough else 3, False, ALLINV)
    s5 = far_subst(2, [0, 9, 17], 2, 2, False, ALLINV)
    thunks += [lambda: ctx.tlc("spatial/SpatialIndex.tla", "spatial/SpatialIndex_model.cfg", subst=s3, workers=1,
                               name="R1 SpatialIndex far coordinates: rounding lemma in a miniature binary floating point format"),
               lambda: ctx.tlc("spatial/SpatialIndex.tla", "spatial/SpatialIndex_model.cfg", subst=s4, workers=2,
                               name="R1 SpatialIndex far coordinates 1d (0, 2^500, +-2^600), <=%d stored" % (4 if thorough else 3)),
               lambda: ctx.tlc("spatial/SpatialIndex.tla", "spatial/SpatialIndex_model.cfg", subst=s5, workers=2,
                               name="R1 SpatialIndex far coordinates 2d, 9 points, <=2 stored")]

    # R2: every history, replayed
    def one(name, dim, coords, mb, mt, nq, reps):
        rng = random.Random(ctx.seed * 1000 + dim)
        cases = ctx.gen("spatial/SpatialIndex.tla", "spatial/SpatialIndex_model.cfg", name="R2 gen index " + name,
                        subst=index_subst(rng, dim, coords, mb, mt, nq, True, "EmitState"))
        for bn, b in bins.items():
            ctx.replay(b, "spatial-index", cases, [IMPLS, "reps=%d" % (reps + (1 if thorough else 0))],
                       name="R2 replay index %s [%s]" % (name, bn))
    for name, dim, coords, mb, mt, nq, reps, tier in INDEX:
        if tier == "thorough" and not thorough:
            continue
        thunks.append(lambda a=(name, dim, coords, mb, mt, nq, reps): one(*a))

    # far coordinates: the same histories over points whose squared distances are small integers, exact multiples of
    # 2^1000 or +Inf; the answers are the specification's on the extended values
    def far(name, dim, coords, mb, mt, reps):
        cases = ctx.gen("spatial/SpatialIndex.tla", "spatial/SpatialIndex_model.cfg", name="R2 gen index " + name,
                        subst=far_subst(dim, coords, mb, mt, True, "EmitState"))
        for bn, b in bins.items():
            ctx.replay(b, "spatial-index", cases, [IMPLS, "reps=%d" % reps], name="R2 replay index %s [%s]" % (name, bn))
    for name, dim, coords, mb, mt, reps, tier in FAR_INDEX:
        if tier == "thorough" and not thorough:
            continue
        thunks.append(lambda a=(name, dim, coords, mb, mt, reps): far(*a))
    ctx.parallel(thunks, width=3)


COMB_INVS = "BinomOK CombOK PermOK PermRankOK CartOK"


def comb_subst(family, emit, invs, maxn=10, maxpn=8, maxpc=5040, dimvals="{1,2,3,4}", dimlen=4):
    return dict(MAXN=maxn, MAXPN=maxpn, MAXPCOUNT=maxpc, MAXBINN=33, DIMVALS=dimvals, MAXDIMLEN=dimlen,
                FAMILY=family, EMIT="TRUE" if emit else "FALSE", INVS=invs)


def combin(ctx, bins, thorough):
    # R1: the constructive enumerations are the declarative ones; rank/unrank inverse and monotone
    ctx.tlc("combin/Combin.tla", "combin/Combin_model.cfg", name="R1 Combin theorems (n<=8 subsets, n<=6 permutations, dims<=3^3)",
            subst=comb_subst("comb", False, COMB_INVS, maxn=8, maxpn=6, maxpc=720, dimvals="{1,2,3}", dimlen=3), workers=2)
    ctx.tlc("combin/Combin.tla", "combin/Combin_model.cfg", name="R1 Combin Pascal rows 0..33",
            subst=comb_subst("binom", False, "PascalOK"), workers=1)
    fams = [("binom", comb_subst("binom", True, "EmitRow")),
            ("comb", comb_subst("comb", True, "")),
            ("perm", comb_subst("perm", True, "", maxpn=10 if thorough else 8, maxpc=40320 if thorough else 5040)),
            ("cart", comb_subst("cart", True, ""))]
    if thorough:
        fams.append(("cart-wide", comb_subst("cart", True, "", dimvals="{1,2,5,10}", dimlen=4)))
    for fam, sub in fams:
        cases = ctx.gen("combin/Combin.tla", "combin/Combin_model.cfg", name="R2 gen combin " + fam, subst=sub)
        for bn, b in bins.items():
            ctx.replay(b, "combin", cases, [], name="R2 replay combin %s [%s]" % (fam, bn))


BIG_R1 = "BigLawsOK BigPascalOK BigRankOK"
BIG_FAMS = ["bigbinom", "bignperm", "bigperm", "bigcomb", "bigcart", "genbinom"]


def combin_big(ctx, bins, thorough):
    """CombinBig.tla: counts and index maps beyond 32 bits (digit sequences). R1: the module's arithmetic against TLC's
    integers, the binomial table, the closed index formulas against Combin.tla's explicit enumerations (small n), and the
    theorems of the printed large cases; R2: the large cases replayed."""
    spec, cfg = "combin/CombinBig.tla", "combin/CombinBig_model.cfg"
    rng = random.Random(ctx.seed * 7 + 5)
    if thorough:
        ns, ks, nrandom = list(range(34, 63)), list(range(1, 32)), 12
    else:
        ns = sorted({34, 61, 62} | set(rng.sample(range(35, 61), 4)))
        ks = sorted({1, 2, 16, 27, 28, 31} | set(rng.sample(range(3, 31), 4)))
        nrandom = 6

    def sub(family, emit, invs, ns=ns):
        return dict(MAXN=10 if thorough else 8, MAXPN=7 if thorough else 6, MAXPCOUNT=5040 if thorough else 720,
                    DIMVALS="{1,2,3,4}" if thorough else "{1,2,3}", MAXDIMLEN=4 if thorough else 3,
                    FAMILY=family, EMIT="TRUE" if emit else "FALSE", INVS=invs, MAXBIGN=67,
                    PERMNS=enc_set(range(13, 21)), PERMKMIN=13, COMBNS=enc_set(ns), COMBKS=enc_set(ks),
                    NRANDOM=nrandom, SALT=ctx.seed % 60000)

    thunks = [lambda: ctx.tlc(spec, cfg, name="R1 CombinBig arithmetic laws, binomial table 0..67, closed index forms = enumeration positions",
                              subst=sub("none", False, BIG_R1), workers=1)]
    groups = [ns[i::4] for i in range(4)] if thorough else [ns]
    for gi, g in enumerate(groups):
        thunks.append(lambda g=g, gi=gi: ctx.tlc(spec, cfg, name="R1 CombinBig theorems of the printed large cases (%d/%d)" % (gi + 1, len(groups)),
                                                 subst=sub("none", False, "BigCasesOK", g), workers=1, timeout=1700))

    def one(fam):
        cases = ctx.gen(spec, cfg, name="R2 gen combin " + fam, subst=sub(fam, True, ""))
        for bn, b in bins.items():
            ctx.replay(b, "combin-big", cases, [], name="R2 replay combin %s [%s]" % (fam, bn))
    thunks += [lambda fam=fam: one(fam) for fam in BIG_FAMS]
    ctx.parallel(thunks, width=4)


def combin_wide(ctx, bins, thorough):
    """CombinWide.tla: index maps of combinations / permutations (and the mixed radix maps over [n]^k) on ground sets far
    wider than a machine word, k <= 3 - every count fits TLC's native integers.  R1: closed forms = positions in the
    explicit enumerations (small n), = CombinBig.tla's digit-sequence forms (n <= 62), theorems of the printed cases;
    R2: the cases, the documented-panic arguments at these sizes and the generators' tails replayed."""
    spec, cfg = "combin/CombinWide.tla", "combin/CombinWide_model.cfg"
    ns = [63, 64, 65, 66, 100, 130, 1000]
    if thorough:
        ns += [67, 96, 127, 128, 129, 192, 255, 256, 257, 640, 1290]

    def sub(family, emit, invs):
        return dict(MAXN=8 if thorough else 7, MAXPN=6, MAXPCOUNT=720, FAMILY=family, EMIT="TRUE" if emit else "FALSE",
                    INVS=invs, COMBNS=enc_set([34, 50, 62] + ([41, 57, 61] if thorough else [])),
                    NRANDOM=8 if thorough else 4, SALT=ctx.seed % 60000, WIDENS=enc_set(ns), WIDEKS="{1,2,3}")
    ctx.tlc(spec, cfg, name="R1 CombinWide: native closed forms = enumeration positions = digit-sequence forms; theorems of the wide cases (n up to %d)" % max(ns),
            subst=sub("none", False, "WideRankOK WideCasesOK"), workers=1)
    for fam in ("widecomb", "wideperm", "widecart"):
        cases = ctx.gen(spec, cfg, name="R2 gen combin " + fam, subst=sub(fam, True, ""))
        for bn, b in bins.items():
            ctx.replay(b, "combin-wide", cases, [], name="R2 replay combin %s [%s]" % (fam, bn))


def keep_trace(ctx, tr, name):
    keep = os.path.join(HERE, "..", "..", "replays", "C20")
    os.makedirs(keep, exist_ok=True)
    dst = os.path.abspath(os.path.join(keep, "%s-seed%d.ndjson" % (name, ctx.seed)))
    shutil.copy(tr, dst)
    return dst


def hilbert(ctx, bins, thorough):
    runs = [("tables", ["news=1", "full=2:1,2:2,2:3,2:4,2:5,2:6,3:1,3:2,3:3,3:4,4:1,4:2,4:3",
                        "win=2:31,3:20,4:15,2:16,3:10,4:8", "winlen=128"])]
    if thorough:
        runs += [("2d-7-8", ["full=2:7,2:8"]), ("3d-5", ["full=3:5"]), ("4d-4", ["full=4:4"]),
                 ("windows", ["win=2:31,3:20,4:15,2:30,3:19,4:14,2:9,3:6,4:5", "winlen=1024"])]
    for bn, b in bins.items():
        for name, args in runs:
            tr = os.path.join(ctx.work, "hilbert-%s-%s.ndjson" % (name, bn))
            summ = ctx.record(b, "hilbert", tr, args, name="R3 record hilbert %s [%s]" % (name, bn))
            ok, st = ctx.validate("curve/HilbertTrace.tla", "curve/HilbertTrace.cfg", tr,
                                  name="R3 validate hilbert %s [%s]" % (name, bn))
            if ok:
                ctx.traces += summ.get("traces", 0)
                ctx.cases += summ.get("traces", 0)
                ctx.nontrivial += summ.get("traces", 0)
            else:
                dst = keep_trace(ctx, tr, "hilbert-%s-%s" % (name, bn))
                ctx.violation("curve:hilbert:trace-rejected:%s" % name, st.get("detail", "")[:600],
                              {"trace": dst, "spec": "curve/HilbertTrace.tla", "cfg_file": "curve/HilbertTrace.cfg", "cfg": {}})


def index_trace(ctx, bins, thorough):
    """code->spec: large lattice point sets (dims 1..6, up to 2000 points, duplicates), bulk build +
    inserts + queries on the live kdtree and a vptree of the same bag, judged by TLC."""
    runs = [("a", ["runs=6", "maxn=700", "queries=5"], "index", False)]
    if thorough:
        runs = [("a", ["runs=12", "maxn=2000", "queries=8"], "index", False), ("b", ["runs=12", "maxn=1200", "queries=10"], "index", False)]
    # box queries (kdtree.DoBounded) are recorded in files of their own: a rejection there has its own signature
    runs += [("box", ["runs=12", "maxn=400", "queries=6", "boxes=only"], "kdtree.DoBounded", False)]
    if thorough:
        runs += [("box-b", ["runs=24", "maxn=2000", "queries=10", "boxes=only"], "kdtree.DoBounded", False)]
    # far coordinates (multiples of 1, 2^500, 2^600 in one point set; squared distances small, multiples of 2^1000, +Inf)
    runs += [("far", ["runs=6", "maxn=200", "queries=5", "far=1"], "index:far-coordinates", True)]
    if thorough:
        runs += [("far-b", ["runs=12", "maxn=800", "queries=8", "far=1"], "index:far-coordinates", True)]
    for bn, b in bins.items():
        for name, args, what, far in runs:
            tr = os.path.join(ctx.work, "index-trace-%s-%s.ndjson" % (name, bn))
            sub = dict(FAR="TRUE" if far else "FALSE")
            summ = ctx.record(b, "spatial-trace", tr, args + ["salt=" + name], name="R3 record index trace %s [%s]" % (name, bn))
            ok, st = ctx.validate("spatial/SpatialIndexTrace.tla", "spatial/SpatialIndexTrace.cfg", tr, subst=sub,
                                  name="R3 validate index trace %s [%s]" % (name, bn), timeout=1500)
            if ok:
                ctx.traces += summ.get("traces", 0)
                ctx.cases += summ.get("traces", 0)
                ctx.nontrivial += summ.get("traces", 0)
            else:
                dst = keep_trace(ctx, tr, "index-trace-%s-%s" % (name, bn))
                ctx.violation("spatial:%s:trace-rejected" % what, st.get("detail", "")[:700],
                              {"trace": dst, "spec": "spatial/SpatialIndexTrace.tla",
                               "cfg_file": "spatial/SpatialIndexTrace.cfg", "cfg": sub})

def barneshut(ctx, bins, thorough):
    """theta = 0: ForceOn equals the spec's direct pairwise sum (exact integer cubic force law)."""
    cfgs = [("2d", 2, "{8,9,10}", "{1,2}", 3, "{0,520,585,1800}"),
            ("3d", 3, "{8,9}", "{1,2}", 3, "{0,33288,37448,115209}")]
    if thorough:
        cfgs += [("2d-n4", 2, "{8,9,10}", "{1}", 4, "{0,520,585,1800}"),
                 ("3d-27", 3, "{8,9,10}", "{1}", 3, "{0,33288,37448,115209}")]
    for name, dim, coords, masses, maxn, probes in cfgs:
        # the generator run also checks the spec's own theorems (third law) on every state
        cases = ctx.gen("spatial/BarnesHut.tla", "spatial/BarnesHut_model.cfg", name="R1+R2 gen barneshut " + name,
                        subst=dict(DIM=dim, COORDS=coords, OFF=OFF, MASSES=masses, MAXN=maxn, PROBES=probes,
                                   EMIT="TRUE", INVS="ThirdLaw Single EmitState"))
        for bn, b in bins.items():
            ctx.replay(b, "barneshut", cases, [], name="R2 replay barneshut %s [%s]" % (name, bn))


BH_P2 = "{520,585,650,333,1800}"            # (0,0) (1,1) (2,2) (-3,5) (20,0)
BH_P3 = "{33288,37449,41610,115209,21005}"  # (0,0,0) (1,1,1) (2,2,2) (20,0,1) (-3,0,5)
BH_TL = 12                                  # the tiny opening angle is 2^-12 (ASSUME ThetaOpensEveryCell)
BH_INVS = "TypeOK LogFaithful TotalLaw OrderFree TinyOnlyFresh"
# name, dim, coords, masses, MaxN, MaxInit, MaxOps (entries, "lit" included), StartBuilt, shards, tier
BH_HIST = [
    ("2d-2x2-m12-n2-ops3", 2, "{8,9}", "{1,2}", 2, 1, 4, False, 1, "quick"),
    ("2d-3x3-built-n4-ops1", 2, "{8,9,10}", "{1}", 4, 3, 3, True, 1, "quick"),
    ("3d-2x2x2-m12-n2-ops2", 3, "{8,9}", "{1,2}", 2, 1, 3, False, 1, "quick"),
    ("3d-2x2x2-built-n4-ops1", 3, "{8,9}", "{1}", 4, 3, 3, True, 1, "quick"),
    ("2d-2x2-m12-n3-ops2", 2, "{8,9}", "{1,2}", 3, 2, 3, False, 1, "thorough"),
    ("2d-2x2-m1-n2-ops4", 2, "{8,9}", "{1}", 2, 1, 5, False, 1, "thorough"),
    ("2d-4x4-built-n3-ops1", 2, "{8,9,10,11}", "{1}", 3, 2, 3, True, 1, "thorough"),
    ("3d-2x2x2-m12-built-n2-ops2", 3, "{8,9}", "{1,2}", 2, 1, 4, True, 1, "thorough"),
    ("3d-3x3x3-built-n3-ops1", 3, "{8,9,10}", "{1}", 3, 2, 3, True, 2, "thorough"),
]


def bh_subst(dim, coords, masses, maxn, maxinit, maxops, built, shard, nshards, emit, invs):
    return dict(DIM=dim, COORDS=coords, OFF=OFF, MASSES=masses, MAXN=maxn, MAXINIT=maxinit, MAXOPS=maxops,
                PROBES=BH_P2 if dim == 2 else BH_P3, STARTBUILT="TRUE" if built else "FALSE", THETALOG2=BH_TL,
                SHARD=shard, NSHARDS=nshards, EMIT="TRUE" if emit else "FALSE", INVS=invs)


def barneshut_hist(ctx, bins, thorough):
    """Histories of one Plane / Volume object (BarnesHutHist.tla): Reset, and Move / SetMass / Append / Remove
    without Reset; after every step theta = 0 on every member and on external probes must be the direct sum over
    the CURRENT slice, and so must the tiny theta when the tree is fresh (or was never built)."""
    spec, cfg = "spatial/BarnesHutHist.tla", "spatial/BarnesHutHist_model.cfg"
    # R1: theorems of the specification on every history of a bound; every action must be taken
    for name, sub in [("2d", bh_subst(2, "{8,9}", "{1,2}", 2, 1, 4, False, 0, 1, False, BH_INVS)),
                      ("3d", bh_subst(3, "{8,9}", "{1,2}", 2, 1, 3, False, 0, 1, False, BH_INVS))]:
        st = ctx.tlc(spec, cfg, name="R1 BarnesHutHist theorems " + name, subst=sub, workers=4, coverage=True)
        never = [a for a in st.get("actions_never_taken", []) if "BarnesHutHist" in a]
        if never:
            from vlib import Undecided
            raise Undecided("vacuous: actions never taken in R1 BarnesHutHist %s: %s" % (name, never))

    # R2: every maximal history in the bound, replayed on real objects (three ways of altering the slice,
    # literal + Reset and the constructor)
    def one(name, dim, coords, masses, maxn, maxinit, maxops, built, shard, nshards):
        cases = ctx.gen(spec, cfg, name="R2 gen barneshut histories %s shard %d/%d" % (name, shard, nshards),
                        subst=bh_subst(dim, coords, masses, maxn, maxinit, maxops, built, shard, nshards, True, "EmitHist"))
        for bn, b in bins.items():
            ctx.replay(b, "barneshut-hist", cases, ["modes=0,1,2"],
                       name="R2 replay barneshut histories %s shard %d/%d [%s]" % (name, shard, nshards, bn))
    thunks = []
    for name, dim, coords, masses, maxn, maxinit, maxops, built, nshards, tier in BH_HIST:
        if tier == "thorough" and not thorough:
            continue
        for sh in range(nshards):
            thunks.append(lambda a=(name, dim, coords, masses, maxn, maxinit, maxops, built, sh, nshards): one(*a))
    ctx.parallel(thunks, width=4)

    # R3: seeded long histories on the lattice [-8, 8]^dim (up to 10-14 particles), judged by TLC
    runs = [("a", 2, 30, 50, 10), ("a", 3, 30, 50, 10)]
    if thorough:
        runs = [("a", 2, 120, 80, 14), ("a", 3, 120, 80, 14), ("b", 2, 200, 30, 6), ("b", 3, 200, 30, 6)]
    for bn, b in bins.items():
        for salt, dim, nruns, nops, maxn in runs:
            tr = os.path.join(ctx.work, "bh-trace-%s-%dd-%s.ndjson" % (salt, dim, bn))
            summ = ctx.record(b, "barneshut-trace", tr, ["dim=%d" % dim, "runs=%d" % nruns, "ops=%d" % nops, "maxn=%d" % maxn,
                                                         "range=5", "tl=%d" % BH_TL, "salt=" + salt],
                              name="R3 record barneshut histories %s %dd [%s]" % (salt, dim, bn))
            sub = dict(DIM=dim, COORDS="{0,16}", OFF=OFF, THETALOG2=BH_TL)   # actual coordinates -8 .. 8
            ok, st = ctx.validate("spatial/BarnesHutHistTrace.tla", "spatial/BarnesHutHistTrace.cfg", tr, subst=sub,
                                  name="R3 validate barneshut histories %s %dd [%s]" % (salt, dim, bn), timeout=1500)
            if ok:
                ctx.traces += summ.get("traces", 0)
                ctx.cases += summ.get("traces", 0)
                ctx.nontrivial += summ.get("traces", 0)
            else:
                dst = keep_trace(ctx, tr, "bh-trace-%s-%dd-%s" % (salt, dim, bn))
                ctx.violation("spatial:barneshut.%s.history:trace-rejected" % ("Plane" if dim == 2 else "Volume"),
                              st.get("detail", "")[:700],
                              {"trace": dst, "spec": "spatial/BarnesHutHistTrace.tla",
                               "cfg_file": "spatial/BarnesHutHistTrace.cfg", "cfg": sub})


def run(ctx):
    os.makedirs(os.path.join(SPECS, "lib"), exist_ok=True)
    thorough = ctx.tier == "thorough"
    bins = {"default": ctx.build("")}
    if thorough:
        bins["noasm"] = ctx.build("noasm")

    # independent groups of stages, side by side
    def enumerations():
        combin(ctx, bins, thorough)
        combin_big(ctx, bins, thorough)

    def recorded():
        hilbert(ctx, bins, thorough)
        index_trace(ctx, bins, thorough)
        barneshut(ctx, bins, thorough)
    ctx.parallel([lambda: spatial_index(ctx, bins, thorough), enumerations, recorded,
                  lambda: barneshut_hist(ctx, bins, thorough), lambda: combin_wide(ctx, bins, thorough)], width=5)

    ctx.assumptions += [
        "TLC/SANY and the CommunityModules Json module are trusted",
        "the harness decodes base-2^15 digit sequences into int64 (shifts and ors) - trusted",
        "the user types of the harness (Compare / Distance / Extend / Bounds / Pivot of its Comparable, Extender and "
        "Interface implementations) are correct user code in the sense of the kdtree / vptree documentation",
        "the harness's operand builders, exact float comparison and multiset comparison are trusted",
        "vptree distances: the harness maps the spec's exact squared integer distance d2 to math.Sqrt(float64(d2)), "
        "the correctly rounded value the implementation must report on lattice points",
        "kdtree bulk construction draws pivots from the unseedable global math/rand/v2 source: a history is "
        "replayed under several constructions, which ones is not reproducible",
    ]
    return ctx.finish(
        rule="R2 index: one case = one history (bulk construction from <= MaxBuilt lattice points, then insertions, "
             "every sequence in the bound) with the answers of all its queries, replayed on every implementation "
             "variant; non-trivial = at least two stored points. R2 combin: one case = one enumeration (one (n,k) / dims "
             "vector / Pascal row) with all its index-map checks; non-trivial = more than one object. R2 combin big families: "
             "one case = one (n,k) / radix vector / table row with all its chosen objects, both index directions; non-trivial = "
             "a count beyond 2^31. R2 combin wide families: one case = one (n,k) with its chosen objects (both index "
             "directions), its documented-panic arguments and, for counts <= 20000, the whole generator sequence; "
             "non-trivial = n > 64. R2 barneshut: one "
             "case = one particle list with the forces on all its particles and 4 probes; non-trivial = >= 2 particles. "
             "R2 barneshut histories: one case = one maximal history of one Plane / Volume object (Reset, Move, SetMass, Append, "
             "Remove) with the answers of all queries after every step, replayed under 3 ways of altering the slice and 2 ways "
             "of construction; non-trivial = some query is asked while the tree does not match the slice (stale / failed Reset). "
             "R3: one trace = one Hilbert table (full curve or window) / one recorded index history / one recorded Barnes-Hut "
             "object history.",
        exhaustive=True)


def replay(ctx, path):
    os.makedirs(os.path.join(SPECS, "lib"), exist_ok=True)
    d = json.load(open(path))["data"]
    if "trace" in d:
        sub = dict(d.get("cfg", {}))
        if d["cfg_file"].endswith("SpatialIndexTrace.cfg"):
            sub.setdefault("FAR", "FALSE")      # (replay files written before the far coordinate runs existed)
        ok, st = ctx.validate(d["spec"], d["cfg_file"], d["trace"], subst=sub)
        print("trace accepted" if ok else "trace rejected: " + st.get("detail", "")[:800])
        if not ok:
            print("VIOLATION property=C20 replay=%s" % path)
        return 0 if ok else 1
    one = os.path.join(ctx.work, "one.ndjson")
    with open(one, "w") as fh:
        fh.write(json.dumps(d["failure"]["case"]) + "\n")
    ctx.replay(ctx.build(""), d["area"], one, d["args"], confirm=False)
    return ctx.finish()
