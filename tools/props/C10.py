"""C10 - descriptive statistics obey their defining formulas (exact-rational part).

R1  TLC checks the metamorphic theorems of the property statement on the definitions of
    specs/stat/Descriptive.tla (DescriptiveThm.tla) for all small samples.
R2  spec->code: DescriptiveGen.tla enumerates weighted integer samples (ties, constants, zero
    weights, nil weights), evaluates every definition in exact rational arithmetic and prints
    the expected values; the Go harness calls gonum's stat package on the same data and
    compares (order statistics and counts exactly, moments within 2^-33 * scale).
    Extreme magnitudes: DescriptiveAff.tla states the expected values on the small sample and, by the
    affine-equivariance theorems of R1, on x' = 2^s x + 2^k c; the harness applies the exact dyadic map
    and compares within the tolerance the specification derives (rounding-error analysis in the module).
    Extension (DescriptiveExt.tla / DescriptiveExtGen.tla; Multivariate.tla / MultivariateGen.tla): the remaining
    functions of package stat on the domains where their value is exact - HarmonicMean, GeometricMean (rational
    roots, scale equivariance), StdErr, StdScore, Entropy / CrossEntropy / KullbackLeibler / JensenShannon /
    Hellinger / Bhattacharyya on dyadic probability vectors (values in units of ln 2), CircularMean on multiples of
    pi/2 (values in units of pi), the argument contract of every function (length / order / range requirements),
    and PC / CC (principal components, canonical correlations) on planted data that the definitions IsPCA / IsCCA
    accept, as two-analysis histories on one receiver with the destination decision tables.
    Representations (seeded change C10-6): the matrix / vector arguments of CovarianceMatrix, CorrelationMatrix,
    Mahalanobis, PC.PrincipalComponents, CC.CanonicalCorrelations are abstract matrices in the specification; every
    case of the families mat, affmat, pca, cca, marg, maha is replayed with the same expected values in each Go
    representation of them (compact Dense, window of a larger junk-filled matrix with stride > columns and offsets,
    transpose of the transposed data, transpose of a window, a user type with only the interface; strided / offset /
    user-type vectors; Sigma as SymDense / window / user type) and into empty / pre-sized / window destinations,
    junk around every window untouched (harness/internal/stat/reps.go) - property C04's statement for package stat.
R3  code->spec: larger seeded samples (n up to 200) are run through gonum, the integer-valued
    results are logged and TLC recomputes them from the logged sample (DescriptiveTrace.tla).
"""
import json
import os

SPECS = os.path.join(os.path.dirname(os.path.abspath(__file__)), "..", "..", "specs", "stat")

# (encoded alphabet, offset): the data alphabet is {a - off}
ALPHAS = [
    ("{0,2,3,5}", 2),     # {-2, 0, 1, 3}
    ("{0,1,2,3}", 1),     # {-1, 0, 1, 2}
    ("{0,1,3,4}", 3),     # {-3, -2, 0, 1}
    ("{1,2,4,5}", 1),     # {0, 1, 3, 4}
    ("{0,3,4,6}", 3),     # {-3, 0, 1, 3}
]


def have(name):
    return os.path.exists(os.path.join(SPECS, name))


def gen(ctx, fam, alpha, off, minn, maxn, wvals, pgrid=8, shard=0, nshards=1, tag=""):
    return ctx.gen("stat/DescriptiveGen.tla", "stat/DescriptiveGen.cfg",
                   name="R2 gen %s %s-%d n=%d..%d w=%s%s" % (fam, alpha, off, minn, maxn, wvals, tag),
                   subst=dict(FAMILY=fam, ALPHA=alpha, OFF=off, MINN=minn, MAXN=maxn, WVALS=wvals,
                              PGRID=pgrid, SHARD=shard, NSHARDS=nshards))


def gen_aff(ctx, fam, alpha, off, minn, maxn, wvals, shard=0, nshards=1):
    return ctx.gen("stat/DescriptiveAff.tla", "stat/DescriptiveAff.cfg",
                   name="R2 gen %s %s-%d n=%d..%d w=%s transforms %d/%d" % (fam, alpha, off, minn, maxn, wvals, shard, nshards),
                   subst=dict(FAMILY=fam, ALPHA=alpha, OFF=off, MINN=minn, MAXN=maxn, WVALS=wvals,
                              PGRID=8, SHARD=shard, NSHARDS=nshards))


def run(ctx):
    thorough = ctx.tier == "thorough"
    builds = [("default", "")] + ([("noasm", "noasm")] if thorough else [])
    bins = {n: ctx.build(t) for n, t in builds}
    a0, o0 = ALPHAS[0]
    a1, o1 = ALPHAS[1 + ctx.seed % (len(ALPHAS) - 1)]   # seed-dependent second alphabet

    # ---- R1: theorems of the property statement on the definitions -------
    if have("DescriptiveThm.tla"):
        ctx.tlc("stat/DescriptiveThm.tla", "stat/DescriptiveThm.cfg", name="R1 theorems: univariate n<=3, bivariate n<=2, w in {0,1,2}",
                subst=dict(ALPHA=a0, OFF=o0, MAXN=3, BMAXN=2, WVALS="{0,1,2}"), workers=4)
        if thorough:
            ctx.tlc("stat/DescriptiveThm.tla", "stat/DescriptiveThm.cfg", name="R1 theorems: n<=3 (uni and bivariate), w in {0,1,2}",
                    subst=dict(ALPHA=a0, OFF=o0, MAXN=3, BMAXN=3, WVALS="{0,1,2}"), workers=4, timeout=1500)
            ctx.tlc("stat/DescriptiveThm.tla", "stat/DescriptiveThm.cfg", name="R1 theorems: univariate n<=4, second alphabet, w in {0,1,3}",
                    subst=dict(ALPHA=a1, OFF=o1, MAXN=4, BMAXN=2, WVALS="{0,1,3}"), workers=4, timeout=1500)

    # ---- R1 (extension): identities of the means / entropy family / circular mean / contract table on the
    # definitions of DescriptiveExt.tla; the planted PCA / CCA cases against the definitions of Multivariate.tla
    # (plant accepted, perturbed claims rejected, integer weights == replicated rows, link to Covariance)
    wv = "{1,2,3}" if thorough else ["{1,2}", "{1,3}", "{2,3}"][ctx.seed % 3]      # seed-dependent weight alphabet
    if have("DescriptiveExtGen.tla"):
        ctx.tlc("stat/DescriptiveExtGen.tla", "stat/DescriptiveExtThm.cfg",
                name="R1 theorems (means, entropies, circular mean, contract table): n<=3, w in %s" % wv,
                subst=dict(FAMILY="all", MAXN=3, WVALS=wv, DEN=8 if thorough else 4), workers=4, timeout=1500)
    if have("MultivariateGen.tla"):
        nsh = 1 if thorough else 4
        ctx.tlc("stat/MultivariateGen.tla", "stat/MultivariateThm.cfg",
                name="R1 theorems (planted PCA / CCA vs the definitions, weights == replication): shard %d/%d" % (ctx.seed % nsh, nsh),
                subst=dict(FAMILY="all", SHARD=ctx.seed % nsh, NSHARDS=nsh), workers=4, timeout=1500)

    # ---- R2: generated cases replayed into gonum --------------------------
    plan = []   # (family, alpha, off, minn, maxn, wvals, pgrid, nshards)
    if not thorough:
        plan += [("uni", a0, o0, 1, 5, "{0,1,2}", 8, 1),
                 ("uni", a1, o1, 1, 4, "{0,1,3}", 8, 1),
                 ("ord", a0, o0, 1, 4, "{0,1,2}", 8, 1),
                 ("ord", a1, o1, 1, 3, "{0,1,3}", 16, 1),
                 ("hist", a0, o0, 1, 3, "{1,2}", 8, 1),
                 ("ks", a0, o0, 1, 3, "{1,2}", 8, 1),
                 ("ks", a1, o1, 1, 2, "{0,1,3}", 8, 1)]
    else:
        plan += [("uni", a0, o0, 1, 6, "{0,1,2}", 8, 4),
                 ("uni", a1, o1, 1, 5, "{0,1,3}", 8, 1),
                 ("ord", a0, o0, 1, 5, "{0,1,2}", 8, 1),
                 ("ord", a1, o1, 1, 4, "{0,1,3}", 16, 1),
                 ("hist", a0, o0, 1, 3, "{0,1,2}", 8, 2),
                 ("hist", a1, o1, 1, 4, "{1,2}", 8, 4),
                 ("ks", a0, o0, 1, 3, "{0,1,2}", 8, 1),
                 ("ks", a1, o1, 1, 3, "{1,3}", 8, 1)]
    extra = EXTRA_THOROUGH if thorough else EXTRA_QUICK
    for fam, al, minn, maxn, wvals, pgrid, nsh in extra:
        a, o = (a0, o0) if al == 0 else (a1, o1)
        plan.append((fam, a, o, minn, maxn, wvals, pgrid, nsh))
    for fam, a, o, minn, maxn, wvals, pgrid, nsh in plan:
        for sh in range(nsh):
            cases = gen(ctx, fam, a, o, minn, maxn, wvals, pgrid, sh, nsh, tag=(" shard %d/%d" % (sh, nsh) if nsh > 1 else ""))
            for bn, _ in builds:
                ctx.replay(bins[bn], "stat", cases, name="R2 replay %s %s-%d n<=%d w=%s%s [%s]" % (
                    fam, a, o, maxn, wvals, (" shard %d" % sh if nsh > 1 else ""), bn))

    # ---- R2 (extension): calls with exact expectations (DescriptiveExtGen.tla) and PC / CC histories
    if have("DescriptiveExtGen.tla"):
        for fam in ("hm", "score", "info", "circ", "arg"):
            big = thorough and fam in ("hm", "circ")
            sub = dict(FAMILY=fam, MAXN=4 if big else 3, WVALS=wv, DEN=16 if thorough else 8)
            cases = ctx.gen("stat/DescriptiveExtGen.tla", "stat/DescriptiveExtGen.cfg", subst=sub,
                            name="R2 gen ext %s n<=%d w=%s den=%d" % (fam, sub["MAXN"], wv, sub["DEN"]))
            for bn, _ in builds:
                ctx.replay(bins[bn], "stat", cases, name="R2 replay ext %s [%s]" % (fam, bn))
    if have("MultivariateGen.tla"):
        for fam in ("pca", "cca", "marg", "maha"):
            cases = ctx.gen("stat/MultivariateGen.tla", "stat/MultivariateGen.cfg", subst=dict(FAMILY=fam, SHARD=0, NSHARDS=1),
                            name="R2 gen %s (planted, checked against the definition)" % fam)
            for bn, _ in builds:
                ctx.replay(bins[bn], "stat", cases, name="R2 replay %s [%s]" % (fam, bn))

    # ---- R2 (extreme magnitudes): the expected values of the small sample, carried by the affine
    # equivariance theorems to x' = 2^s x + 2^k c (s in {-20,0,20}, k in {0,30,44,52}); the harness
    # applies the exact dyadic map to the operands.  The transforms of a sample are drawn by
    # (hash of the sample + seed) mod nshards, so different seeds visit different pairings.
    if have("DescriptiveAff.tla"):
        sd = ctx.seed
        if not thorough:
            aplan = [("affuni", a0, o0, 1, 3, "{1,2}", 0, 1),
                     ("affuni", a1, o1, 1, 3, "{1,3}", sd % 4, 4),
                     ("afford", a0, o0, 1, 3, "{1,2}", 0, 1),
                     ("affbi", a0, o0, 2, 3, "{1,2}", sd % 32, 32),
                     ("affmat", a0, o0, 2, 3, "{1,2}", sd % 48, 48)]
        else:
            aplan = [("affuni", a0, o0, 1, 4, "{1,2}", 0, 1),
                     ("affuni", a1, o1, 1, 3, "{0,1,3}", 0, 1),
                     ("afford", a0, o0, 1, 4, "{1,2}", 0, 1),
                     ("afford", a1, o1, 1, 3, "{0,1,3}", 0, 1),
                     ("affbi", a0, o0, 1, 3, "{1,2}", sd % 16, 16),
                     ("affbi", a1, o1, 2, 3, "{1,3}", sd % 32, 32),
                     ("affmat", a0, o0, 2, 3, "{1,2}", sd % 12, 12)]
        for fam, a, o, minn, maxn, wvals, sh, nsh in aplan:
            cases = gen_aff(ctx, fam, a, o, minn, maxn, wvals, sh, nsh)
            for bn, _ in builds:
                ctx.replay(bins[bn], "stat", cases, name="R2 replay %s %s-%d n<=%d w=%s transforms %d/%d [%s]" % (
                    fam, a, o, maxn, wvals, sh, nsh, bn))

    # ---- R3: larger samples run through gonum, recomputed by TLC ----------
    if have("DescriptiveTrace.tla"):
        for bn, _ in builds:
            tr = os.path.join(ctx.work, "stat-trace-%s.ndjson" % bn)
            n = 80 if thorough else 24
            summ = ctx.record(bins[bn], "stat", tr, ["samples=%d" % n, "maxn=200"], name="R3 record [%s]" % bn)
            ok, st = ctx.validate("stat/DescriptiveTrace.tla", "stat/DescriptiveTrace.cfg", tr,
                                  name="R3 validate [%s]" % bn)
            if ok:
                ctx.traces += summ.get("traces", 0)
            else:
                import shutil
                keep = os.path.join(ctx.work, "..", "..", "replays", "C10")
                os.makedirs(keep, exist_ok=True)
                dst = os.path.abspath(os.path.join(keep, "trace-%s-seed%d.ndjson" % (bn, ctx.seed)))
                shutil.copy(tr, dst)
                ctx.violation("stat:trace-rejected:%s" % bn, st.get("detail", "")[:600],
                              {"trace": dst, "build": bn, "spec": "stat/DescriptiveTrace.tla"})

    ctx.assumptions += [
        "TLC/SANY and the CommunityModules Json module are trusted",
        "the harness's operand builders, its decoding of the specification's number format (math/big) and the "
        "tolerance test |got - expected| <= 2^-33 * scale are trusted",
        "moment-type results are compared within 2^-33 * (2*max|x|)^degree, order statistics, counts and modes exactly",
        "affine families: the operands 2^s x + 2^k c are verified to be exact float64 values (math/big) and the "
        "tolerances are the rounding-error bounds stated and derived in specs/stat/DescriptiveAff.tla (mean error "
        "E = 16 u (|offset| + max|x|); corrected two-pass quantities 2^-40 (2 max|x| + E)^2, divided by sigma / "
        "min(Sxx, Syy) / var(x) for StdDev / Correlation / slope; uncorrected ones first order in E, checked while E <= 1/4)",
        "matrix arguments: the representations of one abstract matrix / vector (compact, window of a junk-filled parent, "
        "transpose, user type; harness/internal/stat/reps.go) are operand builders and trusted as such; the expected values "
        "are the specification's for the abstract matrix, whatever the representation",
        "where the documentation admits two readings (sample vs population skewness/kurtosis, zero-weight leading "
        "entries at p = 0, ROC threshold on a data value) every reading is accepted",
        "extension: values stated in units of ln 2 / pi are compared after the harness multiplies the specification's "
        "rational by the constant math.Ln2 / math.Pi; CircularMean operands are float64(k) * (math.Pi / 2); tolerances "
        "are the ones the specification prints (2^-33 * magnitude for scalar statistics, 2^-30 * (largest variance + 1) "
        "for variances, 2^-30 * largest variance / smallest eigenvalue gap for vectors, 2^-30 * data magnitude / "
        "smallest correlation gap for canonical vectors)",
        "extension: a doc comment's 'must be equal / must be sorted / should be between 0 and 1' is read as 'panics "
        "otherwise' (the behaviour of every other function of the package); PC / CC vectors are compared up to the sign "
        "of each column and only where the eigenvalue / singular value is simple; weighted sample covariance inside "
        "CanonicalCorrelations is read as stat.CovarianceMatrix defines it (normalised by sum(w) - 1)",
    ]
    return ctx.finish(
        rule="R2: one case = one weighted integer sample (or pair of samples / sample + dividers) with all statistics "
             "of its family evaluated by gonum and compared with the specification's values; non-trivial = the sample "
             "has at least two distinct values (uni/ord/bi), the KS distance is non-zero, the histogram input has "
             "more than one point or must panic. Extension: one case = one sample / pair of probability vectors / contract "
             "row with its calls (non-trivial as flagged by the specification: at least two distinct values, p # q, a "
             "defined mean direction, every contract row), or one two-analysis history of a PC / CC receiver "
             "(non-trivial = at least one vector determined up to sign was compared). R3: one trace = one recorded sample with all logged results.",
        exhaustive=True)


# (family, alphabet index 0|1, minn, maxn, wvals, pgrid, nshards)
EXTRA_QUICK = [
    ("bi", 0, 1, 2, "{0,1,2}", 8, 1),
    ("bi", 0, 3, 3, "{1,2}", 8, 1),
    ("mat", 0, 2, 3, "{1,2}", 8, 1),
    ("roc", 0, 1, 3, "{1,2}", 8, 1),
    ("sort", 0, 1, 5, "{1}", 8, 1),
    ("chi", 0, 1, 3, "{1}", 8, 1),
    ("dom", 0, 1, 3, "{0,1,2}", 8, 1),
]
EXTRA_THOROUGH = [
    ("bi", 0, 1, 3, "{0,1,2}", 8, 1),
    ("bi", 1, 1, 3, "{1,3}", 8, 1),
    ("bi", 0, 4, 4, "{1}", 8, 4),
    ("mat", 0, 2, 3, "{0,1,2}", 8, 1),
    ("mat", 1, 2, 3, "{1,3}", 8, 1),
    ("roc", 0, 1, 3, "{0,1,2}", 8, 1),
    ("roc", 1, 1, 4, "{1,3}", 8, 2),
    ("sort", 0, 1, 6, "{1}", 8, 1),
    ("sort", 1, 1, 5, "{1}", 8, 1),
    ("chi", 0, 1, 4, "{1}", 8, 1),
    ("dom", 0, 1, 3, "{0,1,2}", 8, 1),
    ("dom", 1, 1, 3, "{0,1,3}", 8, 1),
]


def replay(ctx, path):
    d = json.load(open(path))["data"]
    if "trace" in d:
        ok, st = ctx.validate(d["spec"], d["spec"].replace(".tla", ".cfg"), d["trace"])
        print("trace accepted" if ok else "trace rejected: " + st.get("detail", "")[:800])
        if not ok:
            print("VIOLATION property=C10 replay=%s" % path)
        return 0 if ok else 1
    one = os.path.join(ctx.work, "one.ndjson")
    with open(one, "w") as fh:
        fh.write(json.dumps(d["failure"]["case"]) + "\n")
    ctx.replay(ctx.build(""), d["area"], one, d["args"], confirm=False)
    return ctx.finish()
