"""C12 - graph containers stay consistent with a set model under any mutation history.

R1  TLC checks the design invariants of GraphSet / GraphMulti / GraphDense / EdgeValue / IteratorProto
    (and that the implementation-shaped GraphStore refines GraphSet) over every history in the bound.
R2  spec->code: TLC prints every reachable abstract state with the answers of all queries (including
    the VALUES the queries return: edges, lines, their reversals) and every transition (every mutator
    call, enabled or panicking, out of every state); the harness reaches the source state on a live
    container by a real history, applies the call and compares all queries (and the iterator
    contract) with the spec's answers - default and 'safe' builds.  For the dense (matrix) types the
    constructor call is the first call of the history (GraphDense.tla: plain and From constructors,
    every order of the node slice, non-contiguous slices, init / self / absent grid, identity of the
    returned node objects).
R2b spec->code: IteratorProto.tla prints every history of Next / Len / Reset / slice form / item
    reads up to a depth; each is replayed on the 18 iterator types of graph/iterator over
    collections of 0..3 items; EdgeValue.tla adds Weight / ReversedEdge and is replayed on the
    multi.Edge / multi.WeightedEdge values obtained from every query of the 4 multigraph types
    (default and safe builds).
R2c spec->code: the wrapper views of package graph - graph.Undirect / graph.UndirectWeighted (every merge in
    {nil = mean, min, max} x Absent in {0, 1, -3}, with a recording Merge) over every directed container and
    graph.Complement over every container - are stated in GraphViews.tla over the states of GraphSet /
    GraphDense / GraphMulti; TLC prints their answers for every reachable state (record kind "v") and the
    harness visits every state once (reached by its shortest real history) and asks every method of every
    view (replay argument views=1).  IteratorProto.tla has the operation Of (graph.NodesOf / EdgesOf /
    WeightedEdgesOf / LinesOf / WeightedLinesOf at the iterator's current position); every history that
    calls it is replayed on the 18 iterator types and graph.Empty, each plain, with the slice form hidden,
    with an unknown (negative) Len, and on a nil iterator (replay argument of=1).
R3  code->spec: seeded random histories of 10^3 calls over 64 ids (incl. extreme ids; dense: with the
    recorded constructor call) are logged from the real containers and validated by TLC against
    GraphSetTrace / GraphMultiTrace.
Independent stages run side by side (ctx.parallel).
"""
import os

SIMPLE = [
    # name, IDS, DIRECTED, WEIGHTS, types, quick?
    ("dir-u4", "{0,1,2,3}", "TRUE", "{1}", "simple.DirectedGraph,simple.WeightedDirectedGraph", True),
    ("und-u4", "{0,1,2,3}", "FALSE", "{1}", "simple.UndirectedGraph,simple.WeightedUndirectedGraph", True),
    ("dir-w3", "{0,1,2}", "TRUE", "{1,2}", "simple.WeightedDirectedGraph", True),
    ("und-w3", "{0,1,2}", "FALSE", "{1,2}", "simple.WeightedUndirectedGraph", True),
    ("und-u5", "{0,1,2,3,4}", "FALSE", "{1}", "simple.UndirectedGraph,simple.WeightedUndirectedGraph", False),
    ("und-w4", "{0,1,2,3}", "FALSE", "{1,2}", "simple.WeightedUndirectedGraph", False),
]
DM, UM = "simple.DirectedMatrix", "simple.UndirectedMatrix"
DENSE = [
    # name, IDS (one id beyond the nodes), DIRECTED, WEIGHTS, n, ABSENT, SELFS, PAYLOADS, type, quick?
    ("dir-dense3", "{0,1,2,3}", "TRUE", "{0,1,2}", 3, 0, "{0,7}", "{0}", DM, True),
    ("und-dense3", "{0,1,2,3}", "FALSE", "{0,1,2}", 3, 0, "{0,7}", "{0}", UM, True),
    # identity of the node objects (payload tokens 0 and 1)
    ("und-dense3-id", "{0,1,2,3}", "FALSE", "{0,1}", 3, 0, "{0,7}", "{0,1}", UM, True),
    ("dir-dense2-id", "{0,1,2}", "TRUE", "{0,1}", 2, 0, "{0,7}", "{0,1}", DM, True),
    # absent = 2 (0 is an ordinary weight), self = absent among the self values
    ("und-dense3-abs2", "{0,1,2,3}", "FALSE", "{0,1,2}", 3, 2, "{2,7}", "{0}", UM, True),
    ("dir-dense2-abs2", "{0,1,2}", "TRUE", "{0,1,2}", 2, 2, "{2,7}", "{0,1}", DM, True),
    # three nodes, one ordinary weight token beside absent = 2 (129 states): replayed under the NaN / Inf bindings below
    ("dir-dense3-w2", "{0,1,2,3}", "TRUE", "{1,2}", 3, 2, "{2,7}", "{0}", DM, True),
    ("dir-dense3-id", "{0,1,2,3}", "TRUE", "{0,1}", 3, 0, "{0,7}", "{0,1}", DM, False),
    ("und-dense4", "{0,1,2,3,4}", "FALSE", "{0,1}", 4, 0, "{0,7}", "{0}", UM, False),
]
# dense families replayed again (tour and views) with weight tokens bound to special float values (replay argument
# bind=token:nan|pinf|ninf): the absent token (which is also an init value and, in the abs2 / w2 families, a self
# value) as NaN, +Inf, -Inf; a self token as NaN / +Inf beside an ordinary absent
DENSE_BIND = [
    # family, bind, quick?
    ("dir-dense3-w2", "2:nan", True), ("dir-dense3-w2", "2:pinf", True), ("dir-dense3-w2", "2:ninf", True),
    ("und-dense3-abs2", "2:nan", True), ("und-dense3-abs2", "2:pinf", True), ("und-dense3-abs2", "2:ninf", True),
    ("dir-dense2-abs2", "2:nan,7:pinf", True), ("und-dense3-id", "7:nan", True),
    ("dir-dense3-id", "0:nan", False), ("und-dense4", "0:nan,7:ninf", False), ("dir-dense3", "0:nan", False),
]
MULTI = [
    ("mdir-2x2", "{0,1}", "{0,1}", "TRUE", "{1}", "multi.DirectedGraph,multi.WeightedDirectedGraph", True),
    ("mund-2x2", "{0,1}", "{0,1}", "FALSE", "{1}", "multi.UndirectedGraph,multi.WeightedUndirectedGraph", True),
    ("mdir-3x1", "{0,1,2}", "{0}", "TRUE", "{1}", "multi.DirectedGraph,multi.WeightedDirectedGraph", True),
    ("mdir-2x1w", "{0,1}", "{0}", "TRUE", "{1,2}", "multi.WeightedDirectedGraph", True),
    ("mund-3x1w", "{0,1,2}", "{0}", "FALSE", "{1,2}", "multi.WeightedUndirectedGraph", True),
    ("mdir-3x1w", "{0,1,2}", "{0}", "TRUE", "{1,2}", "multi.WeightedDirectedGraph", False),
    ("mund-3x2", "{0,1,2}", "{0,1}", "FALSE", "{1}", "multi.UndirectedGraph,multi.WeightedUndirectedGraph", False),
]


def ids_json(s):
    return "[" + s.strip("{}") + "]"


def dense_subst(ids, d, w, n, ab, selfs, pays, emit):
    return dict(IDS=ids, DIRECTED=d, WEIGHTS=w, DENSEN=n, ABSENT=ab, EMIT=emit, PLAINNS="{%d}" % n, ORDERN=n,
                SELFS=selfs, PAYLOADS=pays)


def run(ctx):
    import shutil
    thorough = ctx.tier == "thorough"
    builds = [("default", ""), ("safe", "safe")]
    bins = {n: ctx.build(t) for n, t in builds}
    W = 4 if thorough else 2          # TLC workers of an R1 run (several stages run side by side)
    depth = 8 if thorough else 6       # iterator histories
    edepth = 6 if thorough else 4      # edge value histories
    ofdepth = 6 if thorough else 5     # iterator histories that call the XOf helpers
    have_store = os.path.exists(os.path.join(os.path.dirname(__file__), "..", "..", "specs", "graph", "GraphStore.tla"))

    # ---- phase 1: R1 design models and the R2 generators, side by side ----
    gens = {}
    p1 = []

    def r1(*a, **kw):
        p1.append(lambda: ctx.tlc(*a, workers=W, **kw))

    def gen(key, *a, **kw):
        def f():
            gens[key] = ctx.gen(*a, **kw)
        p1.append(f)

    r1("graph/GraphSet.tla", "graph/GraphSet_model.cfg", name="R1 GraphSet directed weighted 3 ids (coverage)",
       subst=dict(IDS="{0,1,2}", DIRECTED="TRUE", WEIGHTS="{1,2}", DENSEN=0, EMIT="FALSE"), coverage=True)
    r1("graph/GraphMulti.tla", "graph/GraphMulti_model.cfg", name="R1 GraphMulti undirected 3 ids x 2 line ids",
       subst=dict(IDS="{0,1,2}", LIDS="{0,1}", DIRECTED="FALSE", WEIGHTS="{1}", EMIT="FALSE"), coverage=True)
    r1("graph/GraphDense.tla", "graph/GraphDense_model.cfg", name="R1 GraphDense undirected 3 nodes, payloads (coverage)",
       subst=dense_subst("{0,1,2,3}", "FALSE", "{0,1}", 3, 0, "{0,7}", "{0,1}", "FALSE"), coverage=True)
    r1("graph/GraphDense.tla", "graph/GraphDense_model.cfg", name="R1 GraphDense directed 2 nodes, absent = 2, payloads",
       subst=dense_subst("{0,1,2}", "TRUE", "{0,1,2}", 2, 2, "{2,7}", "{0,1}", "FALSE"))
    if have_store:
        r1("graph/GraphStore.tla", "graph/GraphStore.cfg", name="R1 GraphStore refines GraphSet",
           subst=dict(IDS="{0,1,2,3}" if thorough else "{0,1,2}"), coverage=True)
    r1("graph/GraphSet.tla", "graph/GraphSet_model.cfg", name="R1 GraphSet undirected weighted 4 ids (views of an undirected graph)",
       subst=dict(IDS="{0,1,2,3}", DIRECTED="FALSE", WEIGHTS="{1,2}", DENSEN=0, EMIT="FALSE"))
    r1("graph/IteratorProto.tla", "graph/IteratorProto.cfg", name="R1 iterator contract (TypeOK, LenLaw, Exhausted)",
       subst=dict(MAXN=4, DEPTH=depth + 1, EMIT="FALSE", WITHOF="FALSE"))
    r1("graph/IteratorProto.tla", "graph/IteratorProto.cfg", name="R1 iterator contract with the XOf helpers (+ OfLaw), depth 7",
       subst=dict(MAXN=4, DEPTH=7, EMIT="FALSE", WITHOF="TRUE"))
    r1("graph/EdgeValue.tla", "graph/EdgeValue.cfg", name="R1 edge value (iterator contract + WeightResets, OpenOnlyOffStart, RevKeeps)",
       subst=dict(MAXN=3, DEPTH=edepth + 2, EMIT="FALSE"))
    if thorough:
        r1("graph/GraphMulti.tla", "graph/GraphMulti_model.cfg", name="R1 GraphMulti directed 3 ids x 2 line ids",
           subst=dict(IDS="{0,1,2}", LIDS="{0,1}", DIRECTED="TRUE", WEIGHTS="{1}", EMIT="FALSE"))
        # (GraphSet_big.cfg: GraphSet_model.cfg without ViewWeight, which costs ~1.5 ms of TLC time per state - every
        # pair x merge x Absent - and is checked on every state of the 3-id two-weight model and of every generator model)
        r1("graph/GraphSet.tla", "graph/GraphSet_big.cfg", name="R1 GraphSet directed 4 ids, 2 weights",
           subst=dict(IDS="{0,1,2,3}", DIRECTED="TRUE", WEIGHTS="{1,2}", DENSEN=0, EMIT="FALSE"), timeout=1500)
    for name, ids, d, w, types, quick in SIMPLE:
        if quick or thorough:
            gen(("simple", name), "graph/GraphSet.tla", "graph/GraphSet_model.cfg", name="R2 gen simple " + name,
                subst=dict(IDS=ids, DIRECTED=d, WEIGHTS=w, DENSEN=0, EMIT="TRUE"))
    for name, ids, d, w, n, ab, selfs, pays, ty, quick in DENSE:
        if quick or thorough:
            gen(("dense", name), "graph/GraphDense.tla", "graph/GraphDense_model.cfg", name="R2 gen dense " + name,
                subst=dense_subst(ids, d, w, n, ab, selfs, pays, "TRUE"))
    for name, ids, lids, d, w, types, quick in MULTI:
        if quick or thorough:
            gen(("multi", name), "graph/GraphMulti.tla", "graph/GraphMulti_model.cfg", name="R2 gen multi " + name,
                subst=dict(IDS=ids, LIDS=lids, DIRECTED=d, WEIGHTS=w, EMIT="TRUE"))
    gen("iter", "graph/IteratorProto.tla", "graph/IteratorProto.cfg", name="R2 gen iterator histories depth %d" % depth,
        subst=dict(MAXN=3, DEPTH=depth, EMIT="TRUE", WITHOF="FALSE"))
    gen("iterof", "graph/IteratorProto.tla", "graph/IteratorProto.cfg", name="R2 gen iterator histories with XOf depth %d" % ofdepth,
        subst=dict(MAXN=3, DEPTH=ofdepth, EMIT="TRUE", WITHOF="TRUE"))
    gen("edgeval", "graph/EdgeValue.tla", "graph/EdgeValue.cfg", name="R2 gen edge value histories depth %d" % edepth,
        subst=dict(MAXN=3, DEPTH=edepth, EMIT="TRUE"))
    ctx.parallel(p1, width=6)

    # ---- phase 2: replays (R2, R2b) and recorded histories (R3), side by side ----
    p2 = []

    def rep(bn, area, key, args, name):
        def f():
            ctx.replay(bins[bn], area, gens[key], args, name="%s [%s]" % (name, bn))
            return 0
        p2.append(f)

    def r3(bn, area, fam, hist, spec, cfg, subst, prefix, sigkind):
        def f():
            tr = os.path.join(ctx.work, "%s-%s-%s.ndjson" % (prefix, fam, bn))
            summ = ctx.record(bins[bn], area, tr, ["family=" + fam, "hist=%d" % hist, "steps=1000"],
                              name="R3 record %s %s [%s]" % (area, fam, bn))
            ok, st = ctx.validate(spec, cfg, tr, subst=subst, name="R3 validate %s %s [%s]" % (area, fam, bn))
            if ok:
                return summ.get("traces", 0)
            keep = os.path.join(ctx.work, "..", "..", "replays", "C12")
            os.makedirs(keep, exist_ok=True)
            dst = os.path.abspath(os.path.join(keep, "%s-%s-%s-seed%d.ndjson" % (prefix, fam, bn, ctx.seed)))
            shutil.copy(tr, dst)
            ctx.violation("graph:%s-rejected:%s:%s" % (sigkind, fam, bn), st.get("detail", "")[:600],
                          {"trace": dst, "family": fam, "build": bn, "spec": spec, "cfg": subst})
            return 0
        p2.append(f)

    hist = 12 if thorough else 2
    for bn, _ in builds:
        # the big tour first (it is the critical path), one stage per concrete type
        for name, ids, d, w, types, quick in SIMPLE:
            if quick or thorough:
                for ty in types.split(","):
                    rep(bn, "graph-simple", ("simple", name), ["types=" + ty, "ids=" + ids_json(ids)],
                        "R2 replay simple %s %s" % (name, ty))
        for name, ids, d, w, n, ab, selfs, pays, ty, quick in DENSE:
            if quick or thorough:
                rep(bn, "graph-simple", ("dense", name), ["types=" + ty, "ids=" + ids_json(ids), "absent=%d" % ab],
                    "R2 replay dense " + name)
        dense = {e[0]: e for e in DENSE}
        for fam, bind, quick in DENSE_BIND:
            if quick or thorough:
                name, ids, d, w, n, ab, selfs, pays, ty, q = dense[fam]
                a = ["types=" + ty, "ids=" + ids_json(ids), "absent=%d" % ab, "bind=" + bind]
                rep(bn, "graph-simple", ("dense", name), a, "R2 replay dense %s bind %s" % (name, bind))
                rep(bn, "graph-simple", ("dense", name), a + ["views=1"], "R2 views dense %s bind %s" % (name, bind))
        for name, ids, lids, d, w, types, quick in MULTI:
            if quick or thorough:
                rep(bn, "graph-multi", ("multi", name), ["types=" + types, "ids=" + ids_json(ids)], "R2 replay multi " + name)
        rep(bn, "graph-iter", "iter", [], "R2 replay iterator histories")
        rep(bn, "graph-iter", "iterof", ["of=1"], "R2 replay iterator histories through the XOf helpers")
        # the wrapper views, once per reachable state
        for name, ids, d, w, types, quick in SIMPLE:
            if quick or thorough:
                for ty in types.split(","):
                    rep(bn, "graph-simple", ("simple", name), ["types=" + ty, "ids=" + ids_json(ids), "views=1"],
                        "R2 views simple %s %s" % (name, ty))
        for name, ids, d, w, n, ab, selfs, pays, ty, quick in DENSE:
            if quick or thorough:
                rep(bn, "graph-simple", ("dense", name), ["types=" + ty, "ids=" + ids_json(ids), "absent=%d" % ab, "views=1"],
                    "R2 views dense " + name)
        for name, ids, lids, d, w, types, quick in MULTI:
            if quick or thorough:
                rep(bn, "graph-multi", ("multi", name), ["types=" + types, "ids=" + ids_json(ids), "views=1"], "R2 views multi " + name)
        rep(bn, "graph-edgeval", "edgeval", [], "R2 replay edge value histories")
        for fam, d in (("dir-map", "TRUE"), ("undir-map", "FALSE")):
            r3(bn, "graph-simple", fam, hist, "graph/GraphSetTrace.tla", "graph/GraphSetTrace.cfg", dict(DIRECTED=d, DENSEN=0), "trace", "trace")
        for fam, d in (("dir-dense", "TRUE"), ("undir-dense", "FALSE")):
            # (one concrete type per dense family, built by the recorded constructor call: twice the histories)
            r3(bn, "graph-simple", fam, 2 * hist, "graph/GraphSetTrace.tla", "graph/GraphSetTrace.cfg", dict(DIRECTED=d, DENSEN=1), "trace", "trace")
        if os.path.exists(os.path.join(os.path.dirname(__file__), "..", "..", "specs", "graph", "GraphMultiTrace.tla")):
            for fam, d in (("dir", "TRUE"), ("undir", "FALSE")):
                r3(bn, "graph-multi", fam, hist, "graph/GraphMultiTrace.tla", "graph/GraphMultiTrace.cfg", dict(DIRECTED=d), "mtrace", "mtrace")
    accepted = sum(ctx.parallel(p2, width=8))   # (evaluated before the += reads ctx.traces, which the replays update)
    ctx.traces += accepted

    ctx.assumptions += [
        "TLC/SANY and the CommunityModules Json module are trusted",
        "the harness's id binding (model id <-> real id), iterator exerciser and set comparison are trusted",
        "node object identity is modelled for the dense types only (payload tokens); the map backed types are compared "
        "by ids; iteration order is never compared",
        "edge value histories: the custom EdgeWeightFunc handed to the multigraphs is the harness's (it answers a token "
        "and records the lines it was handed, and Resets the iterator as its contract demands)",
    ]
    return ctx.finish(
        rule="R2: one case = one transition of the abstract state graph (a mutator call out of a reachable state) "
             "replayed on one concrete type after a real history reaching the source state; non-trivial = the "
             "call changes the abstract state or must panic (dense types: the history starts with a constructor call, "
             "chosen among the calls the specification gives the same post-state). R2b: one case = one call history on "
             "one iterator type (non-trivial = it hands out at least one item) or on one edge value obtained from one "
             "query of one multigraph type (non-trivial = it calls Weight or ReversedEdge). "
             "R3: one trace = one 1000-call random history.",
        exhaustive=True)


def replay(ctx, path):
    import json
    d = json.load(open(path))["data"]
    if "trace" in d:
        ok, st = ctx.validate(d["spec"], d["spec"].replace(".tla", ".cfg"), d["trace"], subst=d["cfg"])
        print("trace accepted" if ok else "trace rejected: " + st.get("detail", "")[:800])
        if not ok:
            print("VIOLATION property=C12 replay=%s" % path)
        return 0 if ok else 1
    one = os.path.join(ctx.work, "one.ndjson")
    with open(one, "w") as fh:
        fh.write(json.dumps(d["failure"]["case"]) + "\n")
    tags = "safe" if "[safe]" in json.dumps(d) else ""
    summ = ctx.replay(ctx.build(tags), d["area"], one, d["args"], confirm=False)
    return ctx.finish()
