"""C12 - graph containers stay consistent with a set model under any mutation history.

R1  TLC checks the design invariants of GraphSet / GraphMulti (and that the
    implementation-shaped GraphStore refines GraphSet) over every history in the bound.
R2  spec->code: TLC prints every reachable abstract state with the answers of all queries and
    every transition (every mutator call, enabled or panicking, out of every state); the harness
    reaches the source state on a live container by a real history, applies the call and compares
    all queries (and the iterator contract) with the spec's answers - default and 'safe' builds.
R2b spec->code: IteratorProto.tla prints every history of Next / Len / Reset / slice form / item
    reads up to a depth; each is replayed on the 18 iterator types of graph/iterator over
    collections of 0..3 items (default and safe builds).
R3  code->spec: seeded random histories of 10^3 calls over 64 ids (incl. extreme ids) are logged
    from the real containers and validated by TLC against GraphSetTrace / GraphMultiTrace.
"""
import os

SIMPLE = [
    # name, IDS, DIRECTED, WEIGHTS, DENSEN, types, quick?
    ("dir-u4", "{0,1,2,3}", "TRUE", "{1}", 0, "simple.DirectedGraph,simple.WeightedDirectedGraph", True),
    ("und-u4", "{0,1,2,3}", "FALSE", "{1}", 0, "simple.UndirectedGraph,simple.WeightedUndirectedGraph", True),
    ("dir-w3", "{0,1,2}", "TRUE", "{1,2}", 0, "simple.WeightedDirectedGraph", True),
    ("und-w3", "{0,1,2}", "FALSE", "{1,2}", 0, "simple.WeightedUndirectedGraph", True),
    ("dir-dense3", "{0,1,2,3}", "TRUE", "{0,1,2}", 3, "simple.DirectedMatrix,simple.DirectedMatrixFrom", True),
    ("und-dense3", "{0,1,2,3}", "FALSE", "{0,1,2}", 3, "simple.UndirectedMatrix,simple.UndirectedMatrixFrom", True),
    ("und-u5", "{0,1,2,3,4}", "FALSE", "{1}", 0, "simple.UndirectedGraph,simple.WeightedUndirectedGraph", False),
    ("und-w4", "{0,1,2,3}", "FALSE", "{1,2}", 0, "simple.WeightedUndirectedGraph", False),
]
MULTI = [
    ("mdir-2x2", "{0,1}", "{0,1}", "TRUE", "{1}", "multi.DirectedGraph,multi.WeightedDirectedGraph", True),
    ("mund-2x2", "{0,1}", "{0,1}", "FALSE", "{1}", "multi.UndirectedGraph,multi.WeightedUndirectedGraph", True),
    ("mdir-3x1", "{0,1,2}", "{0}", "TRUE", "{1}", "multi.DirectedGraph,multi.WeightedDirectedGraph", True),
    ("mdir-2x1w", "{0,1}", "{0}", "TRUE", "{1,2}", "multi.WeightedDirectedGraph", True),
    ("mund-3x1w", "{0,1,2}", "{0}", "FALSE", "{1,2}", "multi.WeightedUndirectedGraph", True),
    ("mdir-3x1w", "{0,1,2}", "{0}", "TRUE", "{1,2}", "multi.WeightedDirectedGraph", False),
    ("mund-3x2", "{0,1,2}", "{0,1}", "FALSE", "{1}", "multi.UndirectedGraph,multi.WeightedUndirectedGraph", False),
]


def ids_json(s):
    return "[" + s.strip("{}") + "]"


def run(ctx):
    thorough = ctx.tier == "thorough"
    builds = [("default", ""), ("safe", "safe")]
    bins = {n: ctx.build(t) for n, t in builds}

    # ---- R1: design models ------------------------------------------------
    ctx.tlc("graph/GraphSet.tla", "graph/GraphSet_model.cfg", name="R1 GraphSet directed weighted 3 ids (coverage)",
            subst=dict(IDS="{0,1,2}", DIRECTED="TRUE", WEIGHTS="{1,2}", DENSEN=0, EMIT="FALSE"), coverage=True)
    ctx.tlc("graph/GraphMulti.tla", "graph/GraphMulti_model.cfg", name="R1 GraphMulti undirected 3 ids x 2 line ids",
            subst=dict(IDS="{0,1,2}", LIDS="{0,1}", DIRECTED="FALSE", WEIGHTS="{1}", EMIT="FALSE"), coverage=True)
    if os.path.exists(os.path.join(os.path.dirname(__file__), "..", "..", "specs", "graph", "GraphStore.tla")):
        ctx.tlc("graph/GraphStore.tla", "graph/GraphStore.cfg", name="R1 GraphStore refines GraphSet",
                subst=dict(IDS="{0,1,2,3}" if thorough else "{0,1,2}"), coverage=True)
    if thorough:
        ctx.tlc("graph/GraphMulti.tla", "graph/GraphMulti_model.cfg", name="R1 GraphMulti directed 3 ids x 2 line ids",
                subst=dict(IDS="{0,1,2}", LIDS="{0,1}", DIRECTED="TRUE", WEIGHTS="{1}", EMIT="FALSE"))
        ctx.tlc("graph/GraphSet.tla", "graph/GraphSet_model.cfg", name="R1 GraphSet directed 4 ids, 2 weights",
                subst=dict(IDS="{0,1,2,3}", DIRECTED="TRUE", WEIGHTS="{1,2}", DENSEN=0, EMIT="FALSE"), timeout=1500)

    # ---- R2: every transition of the abstract state graph, replayed -------
    for name, ids, d, w, dn, types, quick in SIMPLE:
        if not (quick or thorough):
            continue
        cases = ctx.gen("graph/GraphSet.tla", "graph/GraphSet_model.cfg", name="R2 gen simple " + name,
                        subst=dict(IDS=ids, DIRECTED=d, WEIGHTS=w, DENSEN=dn, EMIT="TRUE"))
        for bn, _ in builds:
            ctx.replay(bins[bn], "graph-simple", cases, ["types=" + types, "ids=" + ids_json(ids)],
                       name="R2 replay simple %s [%s]" % (name, bn))
    for name, ids, lids, d, w, types, quick in MULTI:
        if not (quick or thorough):
            continue
        cases = ctx.gen("graph/GraphMulti.tla", "graph/GraphMulti_model.cfg", name="R2 gen multi " + name,
                        subst=dict(IDS=ids, LIDS=lids, DIRECTED=d, WEIGHTS=w, EMIT="TRUE"))
        for bn, _ in builds:
            ctx.replay(bins[bn], "graph-multi", cases, ["types=" + types, "ids=" + ids_json(ids)],
                       name="R2 replay multi %s [%s]" % (name, bn))

    # ---- R2b: the iterator contract (IteratorProto.tla) on every iterator type of graph/iterator ----
    depth = 8 if thorough else 6
    ctx.tlc("graph/IteratorProto.tla", "graph/IteratorProto.cfg", name="R1 iterator contract (TypeOK, LenLaw, Exhausted)",
            subst=dict(MAXN=4, DEPTH=depth + 1, EMIT="FALSE"))
    cases = ctx.gen("graph/IteratorProto.tla", "graph/IteratorProto.cfg", name="R2 gen iterator histories depth %d" % depth,
                    subst=dict(MAXN=3, DEPTH=depth, EMIT="TRUE"))
    for bn, _ in builds:
        ctx.replay(bins[bn], "graph-iter", cases, [], name="R2 replay iterator histories [%s]" % bn)

    # ---- R3: long random histories of the real containers, validated ------
    hist = 12 if thorough else 2
    for bn, _ in builds:
        for fam, d, dn in (("dir-map", "TRUE", 0), ("undir-map", "FALSE", 0), ("dir-dense", "TRUE", 3), ("undir-dense", "FALSE", 3)):
            tr = os.path.join(ctx.work, "trace-%s-%s.ndjson" % (fam, bn))
            summ = ctx.record(bins[bn], "graph-simple", tr, ["family=" + fam, "hist=%d" % hist, "steps=1000"],
                              name="R3 record %s [%s]" % (fam, bn))
            ok, st = ctx.validate("graph/GraphSetTrace.tla", "graph/GraphSetTrace.cfg", tr,
                                  subst=dict(DIRECTED=d, DENSEN=dn), name="R3 validate %s [%s]" % (fam, bn))
            if ok:
                ctx.traces += summ.get("traces", 0)
            else:
                keep = os.path.join(ctx.work, "..", "..", "replays", "C12")
                os.makedirs(keep, exist_ok=True)
                dst = os.path.abspath(os.path.join(keep, "trace-%s-%s-seed%d.ndjson" % (fam, bn, ctx.seed)))
                import shutil
                shutil.copy(tr, dst)
                ctx.violation("graph:trace-rejected:%s:%s" % (fam, bn), st.get("detail", "")[:600],
                              {"trace": dst, "family": fam, "build": bn, "spec": "graph/GraphSetTrace.tla",
                               "cfg": dict(DIRECTED=d, DENSEN=dn)})
        if os.path.exists(os.path.join(os.path.dirname(__file__), "..", "..", "specs", "graph", "GraphMultiTrace.tla")):
            for fam, d in (("dir", "TRUE"), ("undir", "FALSE")):
                tr = os.path.join(ctx.work, "mtrace-%s-%s.ndjson" % (fam, bn))
                summ = ctx.record(bins[bn], "graph-multi", tr, ["family=" + fam, "hist=%d" % hist, "steps=1000"],
                                  name="R3 record multi %s [%s]" % (fam, bn))
                ok, st = ctx.validate("graph/GraphMultiTrace.tla", "graph/GraphMultiTrace.cfg", tr,
                                      subst=dict(DIRECTED=d), name="R3 validate multi %s [%s]" % (fam, bn))
                if ok:
                    ctx.traces += summ.get("traces", 0)
                else:
                    import shutil
                    keep = os.path.join(ctx.work, "..", "..", "replays", "C12")
                    os.makedirs(keep, exist_ok=True)
                    dst = os.path.abspath(os.path.join(keep, "mtrace-%s-%s-seed%d.ndjson" % (fam, bn, ctx.seed)))
                    shutil.copy(tr, dst)
                    ctx.violation("graph:mtrace-rejected:%s:%s" % (fam, bn), st.get("detail", "")[:600],
                                  {"trace": dst, "family": fam, "build": bn, "spec": "graph/GraphMultiTrace.tla",
                                   "cfg": dict(DIRECTED=d)})

    ctx.assumptions += [
        "TLC/SANY and the CommunityModules Json module are trusted",
        "the harness's id binding (model id <-> real id), iterator exerciser and set comparison are trusted",
        "node object identity is not modelled (only ids); iteration order is never compared",
    ]
    return ctx.finish(
        rule="R2: one case = one transition of the abstract state graph (a mutator call out of a reachable state) "
             "replayed on one concrete type after a real history reaching the source state; non-trivial = the "
             "call changes the abstract state or must panic. R2b: one case = one call history on one iterator type; "
             "non-trivial = it hands out at least one item. R3: one trace = one 1000-call random history.",
        exhaustive=True)


def replay(ctx, path):
    import json
    d = json.load(open(path))["data"]
    if "trace" in d:
        ok, st = ctx.validate(d["spec"], d["spec"].replace(".tla", ".cfg"), d["trace"], subst=d["cfg"])
        print("trace accepted" if ok else "trace rejected: " + st.get("detail", "")[:800])
        if not ok:
            print("VIOLATION property=C12 replay=%s" % path)
        return 0 if ok else 1
    one = os.path.join(ctx.work, "one.ndjson")
    with open(one, "w") as fh:
        fh.write(json.dumps(d["failure"]["case"]) + "\n")
    tags = "safe" if "[safe]" in json.dumps(d) else ""
    summ = ctx.replay(ctx.build(tags), d["area"], one, d["args"], confirm=False)
    return ctx.finish()
