"""C09 - results do not depend on goroutine scheduling; concurrent use is race-free."""
import glob
import importlib.util
import json
import os
import re
import shutil
import sys
sys.path.insert(0, os.path.dirname(os.path.abspath(__file__)) + "/..")

HERE = os.path.dirname(os.path.abspath(__file__))


def _load(name):
    spec = importlib.util.spec_from_file_location(name, os.path.join(HERE, name + ".py"))
    m = importlib.util.module_from_spec(spec)
    spec.loader.exec_module(m)
    return m


def run(ctx):
    th = ctx.tier == "thorough"
    mz = _load("_minimize")
    b = ctx.build("")

    # ---- R1: designs, all interleavings --------------------------------------------------
    mz.r1(ctx, th)
    for ni, nj, nk, p in ((2, 2, 2, 1), (2, 2, 2, 2), (2, 2, 2, 3), (2, 3, 2, 2)) + (((3, 3, 2, 4),) if th else ()):
        ctx.tlc("conc/GemmPar.tla", "conc/GemmPar.cfg", subst=dict(NI=ni, NJ=nj, NK=nk, P=p),
                name="R1 GemmPar %dx%d blocks, %d k-steps, %d tokens" % (ni, nj, nk, p))

    for n, w in ((3, 1), (3, 2), (3, 4)) + (((4, 3), (5, 2)) if th else ()):
        ctx.tlc("conc/QuadFixed.tla", "conc/QuadFixed.cfg", subst=dict(N=n, W=w), name="R1 QuadFixed n=%d workers=%d" % (n, w))
    allinv = "Exclusive ClassPromise NoSliceOutOfRange CapClause"
    ctx.tlc("conc/Pool.tla", "conc/Pool.cfg", subst=dict(B=3, DP="FALSE", REGROW=1, MAXCLASS=3 if th else 2, INVS=allinv),
            name="R1 Pool discipline (3 goroutines, 3 buffers, size classes, power-of-two regrowth)")
    for sub, inv, what in ((dict(B=2, DP="TRUE", REGROW=0, MAXCLASS=1, INVS=allinv), "Exclusive", "a double put"),
                           (dict(B=3, DP="FALSE", REGROW=2, MAXCLASS=2, INVS="ClassPromise"), "ClassPromise",
                            "a workspace regrown to an exact capacity and put back"),
                           (dict(B=3, DP="FALSE", REGROW=2, MAXCLASS=2, INVS="NoSliceOutOfRange"), "NoSliceOutOfRange",
                            "a later get of the undersized workspace")):
        st = ctx.tlc("conc/Pool.tla", "conc/Pool.cfg", subst=sub, name="R1 Pool with %s (must violate %s)" % (what, inv),
                     expect_fail=True)
        if st["ok"] or ("%s is violated" % inv) not in st.get("output_tail", ""):
            from vlib import Undecided
            raise Undecided("the Pool model does not distinguish %s (vacuous model)" % what)

    # shared objects (unit registry, lazily initialised Wishart): the implementation-shaped model is
    # linearizable; the unlocked / un-onced mutants of the model must be distinguished (non-vacuity)
    ctx.tlc("conc/SharedObj.tla", "conc/SharedObj.cfg", subst=dict(NG=4 if th else 3, LOCKED="TRUE", ONCE="TRUE"),
            name="R1 SharedObj registry under its lock + once-initialised object")
    for lk, on, inv in (("FALSE", "TRUE", "UniqueSymbols"), ("TRUE", "FALSE", "NoZeroRead")):
        st = ctx.tlc("conc/SharedObj.tla", "conc/SharedObj.cfg", subst=dict(NG=3, LOCKED=lk, ONCE=on),
                     name="R1 SharedObj mutant LOCKED=%s ONCE=%s (must violate %s)" % (lk, on, inv), expect_fail=True)
        if st["ok"] or ("%s is violated" % inv) not in st.get("output_tail", ""):
            from vlib import Undecided
            raise Undecided("the SharedObj model does not distinguish its mutant (vacuous model)")

    # ---- R3: hook logs of real executions --------------------------------------------------
    mz.r3(ctx, th, b, "default", "C09")
    procs = "1,2,4,16"
    tr = os.path.join(ctx.work, "conc.ndjson")
    summ = ctx.record(b, "conc", tr, ["kinds=gemm,quad,jac,pool,fd", "procs=" + procs, "reps=%d" % (4 if th else 2)],
                      name="R3 record gemm/quad/jacobian/pools", timeout=1500)
    ok, st = ctx.validate("conc/ForkJoinTrace.tla", "conc/ForkJoinTrace.cfg", tr, name="R3 validate fork/join traces", timeout=1500)
    if ok:
        n = summ.get("traces", 0)
        ctx.traces += n
        ctx.cases += n
        ctx.nontrivial += n - summ.get("extra", {}).get("runs_serial", 0)
    else:
        keep = os.path.join(os.path.dirname(ctx.work), "..", "replays", "C09")
        os.makedirs(keep, exist_ok=True)
        dst = os.path.abspath(os.path.join(keep, "conc-seed%d.ndjson" % ctx.seed))
        shutil.copy(tr, dst)
        m = re.search(r"\((\w+) ([^:)]*)", st.get("detail", ""))
        what = (m.group(1) + ":" + m.group(2).split(" procs")[0].split("/")[0]) if m else "unknown"
        ctx.violation("conc:trace-rejected:" + what, st.get("detail", "")[:900],
                      {"trace": dst, "spec": "conc/ForkJoinTrace.tla", "cfg": {}})

    # fd routines with a user function that uses its argument as scratch space: one trace per routine (concurrent-path
    # runs first, serial-path runs last), so that a rejection names the routine and the path
    tr3 = os.path.join(ctx.work, "fdmod.ndjson")
    summ = ctx.record(b, "conc", tr3, ["kinds=fdmod", "procs=" + procs], name="R3 record fd with an argument-modifying function", timeout=900)
    lines = [l for l in open(tr3) if l.strip()]
    routines = ["Gradient", "Jacobian", "Hessian", "Laplacian", "CrossLaplacian"]
    parts = {}
    for rt in routines:
        sel = [l for l in lines if json.loads(l)["name"].startswith("fd.%s " % rt)]
        if not sel:
            from vlib import Undecided
            raise Undecided("no fd.%s run with an argument-modifying function was recorded" % rt)
        parts[rt] = os.path.join(ctx.work, "fdmod-%s.ndjson" % rt)
        with open(parts[rt], "w") as fh:
            fh.writelines(sel)
    res = ctx.parallel([lambda rt=rt: (rt, ctx.validate("conc/ForkJoinTrace.tla", "conc/ForkJoinTrace.cfg", parts[rt],
                                                          name="R3 validate fd.%s, argument-modifying function" % rt, timeout=900))
                        for rt in routines], width=3)
    for rt, (ok, st) in res:
        nrt = sum(1 for _ in open(parts[rt]))
        if ok:
            ctx.traces += nrt
            ctx.cases += nrt
            ctx.nontrivial += sum(1 for l in open(parts[rt]) if " concurrent " in json.loads(l)["name"])
            continue
        keep = os.path.join(os.path.dirname(ctx.work), "..", "replays", "C09")
        os.makedirs(keep, exist_ok=True)
        dst = os.path.abspath(os.path.join(keep, "fdmod-%s-seed%d.ndjson" % (rt, ctx.seed)))
        shutil.copy(parts[rt], dst)
        m = re.search(r"\(call fd\.\w+ scribbling-f (\w+) ", st.get("detail", ""))
        path = m.group(1) if m else "unknown"
        ctx.violation("conc:trace-rejected:fd.%s:argument-modifying-function:%s-path" % (rt, path), st.get("detail", "")[:900],
                      {"trace": dst, "spec": "conc/ForkJoinTrace.tla", "cfg": {}})

    # spec->code: pool scripts (HOGSVD with unequal row counts, then exact integer operations on the shared pools)
    pf = ctx.gen("conc/PoolSeq.tla", "conc/PoolSeq.cfg", subst=dict(SEED=ctx.seed % 1000, NSCRIPTS=48 if th else 24, EMIT="TRUE"),
                 name="R2 gen pool scripts (HOGSVD of unequal row counts, then exact integer Pow / aliased Mul / aliased Solve)")
    ctx.replay(b, "conc-poolseq", pf, [], name="R2 replay pool scripts alone on one P and from 8 goroutines at once")

    # shared objects: linearizability of recorded concurrent executions
    tr2 = os.path.join(ctx.work, "shared.ndjson")
    summ = ctx.record(b, "shared", tr2, ["procs=" + procs, "runs=%d" % (40 if th else 12)], name="R3 record shared objects (unit registry, Wishart, card)", timeout=1500)
    ok, st = ctx.validate("conc/SharedObjTrace.tla", "conc/SharedObjTrace.cfg", tr2, name="R3 linearizability of shared-object runs", timeout=1500, dfs=True)
    if ok:
        n = summ.get("traces", 0)
        ctx.traces += n
        ctx.cases += n
        ctx.nontrivial += summ.get("extra", {}).get("runs_with_overlap", 0)
    else:
        keep = os.path.join(os.path.dirname(ctx.work), "..", "replays", "C09")
        os.makedirs(keep, exist_ok=True)
        dst = os.path.abspath(os.path.join(keep, "shared-seed%d.ndjson" % ctx.seed))
        shutil.copy(tr2, dst)
        m = re.search(r"furthest run \d+ \(([A-Za-z./ ]+?)[ ,]", st.get("detail", ""))
        what = m.group(1).strip().replace(" ", "-") if m else "unknown"
        ctx.violation("conc:not-linearizable:" + what, st.get("detail", "")[:900],
                      {"trace": dst, "spec": "conc/SharedObjTrace.tla", "cfg": {}, "dfs": True})

    # ---- race detector pass (trusted external monitor; pure-Go kernels, tracer off) ---------
    rb = ctx.build("race noasm")
    logp = os.path.join(ctx.work, "race")
    env = {"GORACE": "log_path=%s exitcode=0 halt_on_error=0" % logp}
    ctx.record(rb, "conc", os.path.join(ctx.work, "null1.ndjson"), ["notrace", "procs=4,16", "reps=1"],
               name="race pass: gemm/quad/jacobian/pools [race noasm]", env=env, timeout=1500)
    ctx.record(rb, "shared", os.path.join(ctx.work, "null3.ndjson"), ["notrace", "procs=4,16", "runs=4"],
               name="race pass: shared objects [race noasm]", env=env, timeout=1500)
    ctx.record(rb, "minimize", os.path.join(ctx.work, "null2.ndjson"), ["notrace"] + (["thorough"] if th else []),
               name="race pass: minimize [race noasm]", env=env, timeout=1500)
    races = 0
    for f in glob.glob(logp + ".*"):
        text = open(f, errors="replace").read()
        for rep in text.split("WARNING: DATA RACE")[1:]:
            races += 1
            # only the two racing access stacks (before the "Goroutine ... created at" sections) count,
            # and only if one of them is inside the library (package path gonum.org/v1/gonum/..., not the harness); races between harness goroutines
            # would be a harness bug, reported as undecided
            acc = rep.split("Goroutine ")[0]
            fr = re.findall(r"\n\s+(gonum\.org/v1/gonum/[\w./]+)\.([\w.()*]+)\(\)\n\s+(/[^\s]+)", acc)
            # frames of the harness module itself (gonum.org/v1/gonum/verifharness/...) are not library frames
            fr = [x for x in fr if not x[0].startswith("gonum.org/v1/gonum/verifharness")]
            if not fr:
                from vlib import Undecided
                raise Undecided("race detector report without a library frame (harness race?):\n" + rep[:1500])
            where = fr[0][0].replace("gonum.org/v1/gonum/", "") + "." + fr[0][1]
            ctx.violation("conc:race:" + where, "data race reported by the race detector:\n" + rep[:1500],
                          {"race_report": rep[:4000]})
    ctx.stages.append({"stage": "race detector reports", "kind": "monitor", "races": races})

    ctx.assumptions += [
        "TLC trusted; hook emitters trusted; for fork/join traces the position of an event in the global log is "
        "trusted only as 'logged no later than' (every order the spec demands is enforced by the code through a "
        "semaphore / mutex / WaitGroup / sync.Pool around the logging point)",
        "the Go race detector is a trusted external monitor (it is not derived from the specification)",
        "bit-identical results are demanded only for Dgemm/Sgemm (fixed per-block contribution order in the model); "
        "quad/fd concurrent results are compared with the serial answer to rounding by a logging-boundary predicate",
    ]
    return ctx.finish(
        rule="one trace = one real call (Dgemm/Sgemm parallel path per transpose arm, shape, GOMAXPROCS, repetition; "
             "quad.Fixed per n x concurrent; fd.Jacobian per formula x shape; 32 goroutines on the mat pools; one Minimize run); "
             "non-trivial = the concurrent path actually ran (not the serial fallback)",
        exhaustive=False)


def replay(ctx, path):
    d = json.load(open(path))["data"]
    if "trace" in d:
        if "Minimize" in d["spec"]:
            return _load("_minimize").replay_trace(ctx, d, "C09")
        ok, st = ctx.validate(d["spec"], d["spec"].replace(".tla", ".cfg"), d["trace"], dfs=bool(d.get("dfs")))
        print("trace accepted" if ok else "trace rejected: " + st.get("detail", "")[:1200])
        if not ok:
            print("VIOLATION property=C09 replay=%s" % path)
        return 0 if ok else 1
    if "failure" in d:
        one = os.path.join(ctx.work, "one.ndjson")
        with open(one, "w") as fh:
            fh.write(json.dumps(d["failure"]["case"]) + "\n")
        ctx.replay(ctx.build(""), d["area"], one, d["args"], confirm=False)
        return ctx.finish()
    print(d.get("race_report", ""))
    return 1
