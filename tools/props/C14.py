"""C14 - structural graph algorithms agree with their definitions.

R1  TLC proves, on every digraph with <= 4 nodes and every undirected graph with <= 5 nodes (all
    labelings), that each operator of specs/structural/Structural.tla used as an oracle equals its
    brute-force definition (reachability by paths, SCC classes, elementary cycles, GF(2) rank vs span by
    symmetric differences, maximal cliques, k-core as largest min-degree-k subgraph, dominators by simple
    paths, hop distance, minimum spanning forest by enumeration, chromatic number by enumeration, product
    sizes), and that the generator form and predicate form of the topo.Sort contract coincide.
R2  spec->code: TLC enumerates every graph of the family and prints the defined answers; the harness
    builds each graph in real gonum containers (3 container types x 3 id maps, shuffled insertion order)
    and compares every determined output with what TLC printed.
R3  code->spec: outputs that are only constrained by a predicate (cycle basis, colourings, spanning
    forests, degeneracy order, topological order) and all outputs on seeded random graphs up to 40 nodes
    are recorded from the real code and judged by TLC against StructuralTrace.tla.
"""
import json
import os
import shutil

D_INV = "ReachOK SccOK BfsOK BfsLayersPartition SortOK TopoAcyclic CyclesOK CyclesInScc DomOK"
U_INV = "ReachOK SccOK BfsOK BfsLayersPartition CcOK CliqueOK CoreOK ChiOK BasisOK MsfOK KccOK"


def gen(ctx, mode, nmin, nmax, palette="{0,2}", name=None):
    return ctx.gen("structural/StructuralGen.tla", "structural/StructuralGen.cfg",
                   subst=dict(MODE=mode, NMIN=nmin, NMAX=nmax, SALT=ctx.seed % 1000, PALETTE=palette),
                   name=name or "R2 gen %s n=%d..%d" % (mode, nmin, nmax))


def trace(ctx, b, tag, args, keepname):
    tr = os.path.join(ctx.work, "trace-%s.ndjson" % tag)
    summ = ctx.record(b, "structural", tr, args, name="R3 record " + tag)
    ok, st = ctx.validate("structural/StructuralTrace.tla", "structural/StructuralTrace.cfg", tr,
                          name="R3 validate " + tag, timeout=2400)
    if ok:
        ctx.traces += summ.get("traces", 0)
        return
    keep = os.path.join(os.path.dirname(__file__), "..", "..", "replays", "C14")
    os.makedirs(keep, exist_ok=True)
    dst = os.path.abspath(os.path.join(keep, "trace-%s-seed%d.ndjson" % (keepname, ctx.seed)))
    shutil.copy(tr, dst)
    ctx.violation("structural:trace-rejected:%s" % keepname, st.get("detail", "")[:900],
                  {"trace": dst, "spec": "structural/StructuralTrace.tla"})


def run(ctx):
    thorough = ctx.tier == "thorough"
    b = ctx.build("")
    bins = [("default", b)]
    if thorough:
        bins.append(("tomita", ctx.build("tomita")))

    # ---- R1: the specification's own theorems ---------------------------------------------
    r1 = "structural/StructuralR1.tla", "structural/StructuralR1.cfg"
    ctx.tlc(*r1, subst=dict(N=4, DIRECTED="TRUE", INVS=D_INV), name="R1 all digraphs <= 4 nodes: definitions agree")
    ctx.tlc(*r1, subst=dict(N=5, DIRECTED="FALSE", INVS=U_INV), name="R1 all undirected graphs <= 5 nodes: definitions agree")
    ctx.tlc(*r1, subst=dict(N=4, DIRECTED="FALSE", INVS="ProductOK"), name="R1 product sizes, graphs <= 4 x <= 3 nodes")

    # ---- R2: exhaustive enumeration replayed into gonum ---------------------------------------
    files = [
        ("dir", gen(ctx, "dir", 0, 4)),
        ("und", gen(ctx, "und", 0, 5)),
        ("part", gen(ctx, "part", 0, 4, "{0,1,3}" if thorough else "{0,2}")),
        ("prod", gen(ctx, "prod", 0, 3)),
        ("gen", gen(ctx, "gen", 0, 4)),
    ]
    if thorough:
        files.append(("und6", gen(ctx, "und", 6, 6)))
        files.append(("gen5", gen(ctx, "gen", 0, 5)))
    for bn, bp in bins:
        for tag, f in files:
            if bn == "tomita" and not tag.startswith("und"):
                continue      # the tag only changes the pivot choice of the clique search
            ctx.replay(bp, "structural", f, ["maps=%d" % (1 if bn == "tomita" else 3)], name="R2 replay %s [%s]" % (tag, bn))

    # ---- R3: recorded outputs judged by TLC -----------------------------------------------
    if os.path.exists(os.path.join(os.path.dirname(__file__), "..", "..", "specs", "structural", "StructuralTrace.tla")):
        fd = dict(files)
        trace(ctx, b, "exh-und", ["mode=cases", "cases=" + fd["und"], "maps=1", "stride=%d" % (1 if thorough else 4)], "exh-und")
        trace(ctx, b, "exh-dir", ["mode=cases", "cases=" + fd["dir"], "maps=1", "stride=%d" % (2 if thorough else 8)], "exh-dir")
        trace(ctx, b, "exh-part", ["mode=cases", "cases=" + fd["part"], "maps=1", "stride=%d" % (1 if thorough else 3)], "exh-part")
        trace(ctx, b, "random", ["mode=random", "count=%d" % (80 if thorough else 20), "maxn=40"], "random")

    ctx.assumptions += [
        "TLC/SANY and the CommunityModules Json module are trusted",
        "the harness's container builders, id binding (model id <-> real id) and set/bag comparison are trusted",
        "iteration order of gonum containers is not controlled (Go map order); results are compared as sets/bags",
    ]
    return ctx.finish(
        rule="R2: one case = one enumerated graph (or graph + partial colouring / graph pair / generator call) "
             "built in one container type under one id map with all routines of its family called and compared; "
             "non-trivial = the graph has at least one edge (partial colouring non-empty, product non-empty, "
             "generator call with edges or a documented panic). R3: one trace = one recorded graph event "
             "accepted by TLC.",
        exhaustive=True)


def replay(ctx, path):
    d = json.load(open(path))["data"]
    if "trace" in d:
        ok, st = ctx.validate(d["spec"], d["spec"].replace(".tla", ".cfg"), d["trace"])
        print("trace accepted" if ok else "trace rejected: " + st.get("detail", "")[:800])
        if not ok:
            print("VIOLATION property=C14 replay=%s" % path)
        return 0 if ok else 1
    one = os.path.join(ctx.work, "one.ndjson")
    with open(one, "w") as fh:
        fh.write(json.dumps(d["failure"]["case"]) + "\n")
    ctx.replay(ctx.build(""), d["area"], one, d["args"], confirm=False)
    return ctx.finish()
