"""C14 - structural graph algorithms agree with their definitions.

R1  TLC proves, on every digraph with <= 4 nodes and every undirected graph with <= 5 nodes (all
    labelings), that each operator of specs/structural/Structural.tla used as an oracle equals its
    brute-force definition (reachability by paths, SCC classes, elementary cycles, GF(2) rank vs span by
    symmetric differences, maximal cliques, k-core as largest min-degree-k subgraph, dominators by simple
    paths, hop distance, minimum spanning forest by enumeration, chromatic number by enumeration, product
    sizes), and that the generator form and predicate form of the topo.Sort contract coincide.
R2  spec->code: TLC enumerates every graph of the family and prints the defined answers; the harness
    builds each graph in real gonum containers (3 container types x 3 id maps, shuffled insertion order)
    and compares every determined output with what TLC printed. Generators: every id sequence of length <= 4
    (mode "gen") and the full small grid n = 0..9 x fan-out 0..10 x listings x centre placements x
    pre-populated destinations (mode "grid", with the GridOK cross-check of every shape's second formulation).
    Products: the 144 pairs of undirected graphs <= 3 nodes (mode "prod") and the products over arcs (mode "prodx"):
    every ordered pair of digraphs <= 3 nodes held in directed or (when symmetric) undirected containers, into a
    directed and an undirected destination, six products + ModularExt with four agreement functions.
R3  code->spec: outputs that are only constrained by a predicate (cycle basis, colourings, spanning
    forests, degeneracy order, topological order) and all outputs on seeded random graphs up to 40 nodes
    are recorded from the real code and judged by TLC against StructuralTrace.tla.
R3c chromatic number beyond enumeration: hundreds of seeded random graphs of 20..32 nodes, DsaturExact called many
    times per graph on rebuilt containers plus every heuristic; StructuralTrace ("chrom" clauses) accepts only
    total proper colourings with exactly k colours and an exact solver never beaten by another recorded colouring
    of the same graph; ChromaticSearch.tla (canonical colouring search as a state machine, proved complete for
    every vertex order on all graphs <= 5 nodes by R1 SearchOK) is exhausted by TLC with K = least recorded k - 1
    for every graph at once: no complete colouring reachable = the least recorded k IS the chromatic number.
    A reachable complete colouring is a witness that the exact solver missed the chromatic number; the harness
    confirms it on the real container and re-runs DsaturExact against it.
"""
import json
import os
import re
import shutil

D_INV = "ReachOK SccOK BfsOK BfsLayersPartition SortOK TopoAcyclic CyclesOK CycleSearchOK CyclesInScc DomOK IntervalOK WalkOK"
U_INV = "ReachOK SccOK BfsOK BfsLayersPartition CcOK CliqueOK CliqueSearchOK CoreOK ChiOK SearchOK BasisOK MsfOK KccOK WalkOK"


ABOVE_CHI = "structural:DsaturExact:above-chromatic-number"


def gen(ctx, mode, nmin, nmax, palette="{0,2}", name=None):
    return ctx.gen("structural/StructuralGen.tla", "structural/StructuralGen.cfg",
                   subst=dict(MODE=mode, NMIN=nmin, NMAX=nmax, SALT=ctx.seed % 1000, PALETTE=palette),
                   name=name or "R2 gen %s n=%d..%d" % (mode, nmin, nmax))


def trace(ctx, b, tag, args, keepname):
    tr = os.path.join(ctx.work, "trace-%s.ndjson" % tag)
    summ = ctx.record(b, "structural", tr, args, name="R3 record " + tag)
    ok, st = ctx.validate("structural/StructuralTrace.tla", "structural/StructuralTrace.cfg", tr,
                          name="R3 validate " + tag, timeout=2400)
    if ok:
        ctx.traces += summ.get("traces", 0)
        return tr
    keep = os.path.join(os.path.dirname(__file__), "..", "..", "replays", "C14")
    os.makedirs(keep, exist_ok=True)
    dst = os.path.abspath(os.path.join(keep, "trace-%s-seed%d.ndjson" % (keepname, ctx.seed)))
    detail = st.get("detail", "")
    at = re.search(r"TRACE-REJECTED at event (\d+): failed clauses (\{[^}]*\})", detail)
    if keepname in ("chromatic", "dcycles") and at:
        # one event = one graph with all its calls: the rejected event alone is the artefact
        with open(dst, "w") as fh:
            fh.write(open(tr).read().split("\n")[int(at.group(1)) - 1] + "\n")
        ev = json.loads(open(dst).read())
        clauses = at.group(2).replace('\\"', "")
        head = "graph %d (%s, %d nodes, %d edges): clauses %s rejected by StructuralTrace" % (
            ev["gid"], ev["type"], len(ev["V"]), len(ev["E"]), clauses)
        if keepname == "dcycles":
            sig = ("structural:DirectedCyclesIn:not-elementary-or-twice" if "DirectedCyclesIn" in clauses
                   else "structural:trace-rejected:dcycles")
            ctx.violation(sig, head + "; cycles returned per call: %s" % [len(r["cycles"]) for r in ev["runs"]],
                          {"trace": dst, "spec": "structural/StructuralTrace.tla"})
            return tr
        ks = sorted(set(c["k"] for c in ev["calls"] if c["exact"]))
        alg = re.search(r"(\w+): total, proper", clauses)
        sig = (ABOVE_CHI if "DsaturExact-attains-least-k" in clauses else
               "structural:%s:colouring-not-total-proper-k" % alg.group(1) if alg else
               "structural:BronKerbosch:not-maximal-or-twice" if "BronKerbosch" in clauses else
               "structural:trace-rejected:chromatic")
        ctx.violation(sig, head + "; DsaturExact returned k in %s over %d calls, least recorded k = %d" % (
                          ks, sum(1 for c in ev["calls"] if c["exact"]), min(c["k"] for c in ev["calls"])),
                      {"trace": dst, "spec": "structural/StructuralTrace.tla"})
        return tr
    shutil.copy(tr, dst)
    ctx.violation("structural:trace-rejected:%s" % keepname, detail[:900],
                  {"trace": dst, "spec": "structural/StructuralTrace.tla"})
    return tr


def chromatic(ctx, b, tag="chromatic", sizes=None):
    """R3c: see the module docstring. Sizes are measured: DsaturExact takes 2..90 ms per call on these graphs
    (recording 200 graphs x 16 calls: 25-45 s on 4 goroutines), TLC's exhaustive search 10^4..10^5 states in all."""
    thorough = ctx.tier == "thorough"
    args = ["mode=chromatic", "par=4"] + (sizes or (
        ["graphs=400", "calls=20", "heur=2", "nmin=20", "nmax=36", "cliq=1"] if thorough else
        ["graphs=200", "calls=16", "heur=1", "nmin=22", "nmax=30", "cliq=1"]))
    tr = trace(ctx, b, tag, args, "chromatic")
    events = [json.loads(l) for l in open(tr)]
    sfx = "" if tag == "chromatic" else " [%s]" % tag
    family_search(ctx, b, tr, events, "clique", sfx)
    skip = []
    while True:
        ok, st = ctx.validate("structural/ChromaticSearch.tla", "structural/ChromaticSearch.cfg", tr,
                              subst=dict(SKIP=", ".join(map(str, skip))), dfs=True, workers=4, timeout=1500,
                              accept_re=r"CHROMATIC-SEARCH-INSTANCES (\d+)",
                              name="R3 chromatic lower bounds: exhaustive search with (least recorded k)-1 colours" + sfx
                                   + (" [without graphs %s]" % skip if skip else ""))
        if ok:
            st["chromatic_numbers_proved"] = st.get("events_consumed", 0)
            break
        # NotComplete violated: the last state of TLC's counterexample is a complete colouring of graph g
        detail = st.get("detail", "")
        gs = re.findall(r"/\\ g = (\d+)", detail)
        cols = re.findall(r"/\\ col = <<([\d,\s]*)>>", detail)
        if "NotComplete is violated" not in detail and not (gs and cols):
            raise_undecided("chromatic search failed without a readable counterexample:\n" + detail[-1500:])
        if not gs or not cols:
            raise_undecided("chromatic search: counterexample not in the output tail:\n" + detail[-1500:])
        ev = events[int(gs[-1]) - 1]
        col = [int(x) for x in cols[-1].replace("\n", " ").split(",") if x.strip()]
        if ev.get("k") != "chrom" or len(col) != len(ev["order"]):
            raise_undecided("chromatic search: counterexample does not fit event %s" % gs[-1])
        pairs = sorted([v, c] for v, c in zip(ev["order"], col))
        kw = len(set(col))
        kmin = min(c["k"] for c in ev["calls"] if c["err"] == "")
        case = {"k": "witness", "gid": ev["gid"], "V": ev["V"], "E": ev["E"], "col": pairs, "kw": kw, "kmin": kmin,
                "calls": 300, "type": ev["type"]}
        wf = os.path.join(ctx.work, "witness-%d.ndjson" % ev["gid"])
        with open(wf, "w") as fh:
            fh.write(json.dumps(case) + "\n")
        if kw >= kmin:
            raise_undecided("chromatic search: counterexample for graph %d uses %d colours, least recorded k is %d" % (ev["gid"], kw, kmin))
        summ = ctx.replay(b, "structural", wf, [], confirm=False,
                          name="R3 chromatic witness for graph %d replayed (proper on the container? DsaturExact again)" % ev["gid"])
        if not summ.get("extra", {}).get("witness_confirmed_proper"):
            raise_undecided("the %d-colouring TLC found for graph %d was not confirmed proper by the harness: %s"
                            % (kw, ev["gid"], pairs))
        if not summ.get("failures"):
            # DsaturExact did not repeat the larger k in 300 fresh calls (the search order depends on map
            # iteration order): the recorded calls plus the witness are the artefact; StructuralTrace rejects it
            keep = os.path.join(os.path.dirname(__file__), "..", "..", "replays", "C14")
            os.makedirs(keep, exist_ok=True)
            dst = os.path.abspath(os.path.join(keep, "trace-chromatic-witness-g%d-seed%d.ndjson" % (ev["gid"], ctx.seed)))
            classes = sorted(set(c for _, c in pairs))
            ev2 = dict(ev, calls=ev["calls"] + [{"alg": "ChromaticSearch-witness", "k": kw, "col": pairs, "err": "", "exact": False,
                                                 "sets": [[c] + [v for v, cv in pairs if cv == c] for c in classes], "setsbyid": True}])
            with open(dst, "w") as fh:
                fh.write(json.dumps(ev2) + "\n")
            ctx.violation(ABOVE_CHI, "graph %d (%s): every recorded DsaturExact call returned k >= %d, TLC found a proper "
                          "colouring with %d colours (confirmed on the container): %s" % (ev["gid"], ev["type"], kmin, kw, pairs),
                          {"trace": dst, "spec": "structural/StructuralTrace.tla"})
        skip.append(ev["gid"])
        if len(skip) >= 3:
            ctx.notes.append("chromatic search stopped after 3 witnesses; remaining graphs not searched")
            break


# the two "no returned family misses an object" searches: what differs between them
FAMILY = {
    "clique": dict(
        spec="structural/CliqueSearch", marker="CLIQUE-SEARCH-INSTANCES", workers=4,
        stage="R3 BronKerbosch completeness: exhaustive clique enumeration",
        state=r"/\\ R = \{([\d,\s]*)\}", canon=sorted, routine="BronKerbosch", what="maximal clique",
        sig="structural:BronKerbosch:missing-maximal-clique", case_kind="missing-clique", field="clique",
        confirmed="clique_confirmed_maximal", proved="clique_families_proved_complete",
        returned=lambda ev: [[sorted(c) for c in ev["cliques"]]]),
    "cycle": dict(
        spec="structural/CycleSearch", marker="CYCLE-SEARCH-INSTANCES", workers=4,
        stage="R3 DirectedCyclesIn completeness: exhaustive enumeration of canonical simple paths",
        state=r"/\\ path = <<([\d,\s]*)>>", canon=list, routine="DirectedCyclesIn", what="elementary cycle",
        sig="structural:DirectedCyclesIn:missing-elementary-cycle", case_kind="missing-cycle", field="cycle",
        confirmed="cycle_confirmed_elementary", proved="cycle_sets_proved_complete",
        returned=lambda ev: [r["cycles"] for r in ev["runs"]]),
}


def family_search(ctx, b, tr, events, which, sfx=""):
    """Completeness of a returned family on recorded graphs: TLC enumerates every object of every graph
    (CliqueSearch.tla: every clique; CycleSearch.tla: every simple path with least first node); one that
    qualifies (maximal clique / closes an elementary cycle) and is not in a returned family is a violation."""
    F = FAMILY[which]
    skip = []
    while True:
        ok, st = ctx.validate(F["spec"] + ".tla", F["spec"] + ".cfg", tr,
                              subst=dict(SKIP=", ".join(map(str, skip))), workers=F["workers"], timeout=1500,
                              accept_re=F["marker"] + r" (\d+)",
                              name=F["stage"] + sfx + (" [without graphs %s]" % skip if skip else ""))
        if ok:
            st[F["proved"]] = st.get("events_consumed", 0)
            return
        detail = st.get("detail", "")
        gs = re.findall(r"/\\ g = (\d+)", detail)
        xs = re.findall(F["state"], detail)
        if not gs or not xs:
            raise_undecided("%s search failed without a readable counterexample:\n%s" % (which, detail[-1500:]))
        ev = events[int(gs[-1]) - 1]
        obj = F["canon"](int(x) for x in xs[-1].replace("\n", " ").split(",") if x.strip())
        if not obj or all(obj in fam for fam in F["returned"](ev)):
            raise_undecided("%s search: counterexample does not fit event %s: %s" % (which, gs[-1], obj))
        case = {"k": F["case_kind"], "gid": ev["gid"], "V": ev["V"], "E": ev["E"], F["field"]: obj, "calls": 50,
                "type": ev["type"]}
        wf = os.path.join(ctx.work, "%s-%d.ndjson" % (F["case_kind"], ev["gid"]))
        with open(wf, "w") as fh:
            fh.write(json.dumps(case) + "\n")
        summ = ctx.replay(b, "structural", wf, [], confirm=False,
                          name="R3 missing %s of graph %d replayed (confirmed on the container? %s again)"
                               % (F["what"], ev["gid"], F["routine"]))
        if not summ.get("extra", {}).get(F["confirmed"]):
            raise_undecided("the %s TLC reached in graph %d was not confirmed by the harness: %s" % (F["what"], ev["gid"], obj))
        if not summ.get("failures"):
            # not repeated in 50 fresh calls: the recorded output is the artefact; the one-event trace is re-judged
            # by the same search module on replay
            keep = os.path.join(os.path.dirname(__file__), "..", "..", "replays", "C14")
            os.makedirs(keep, exist_ok=True)
            dst = os.path.abspath(os.path.join(keep, "trace-%s-g%d-seed%d.ndjson" % (F["case_kind"], ev["gid"], ctx.seed)))
            with open(dst, "w") as fh:
                fh.write(json.dumps(ev) + "\n")
            ctx.violation(F["sig"], "graph %d (%s): a recorded output of %s does not contain the %s %s "
                          "(reached by TLC's exhaustive enumeration, confirmed on the container)"
                          % (ev["gid"], ev["type"], F["routine"], F["what"], obj),
                          {"trace": dst, "spec": F["spec"] + ".tla", "subst": {"SKIP": ""},
                           "accept_re": F["marker"] + r" (\d+)"})
        skip.append(ev["gid"])
        if len(skip) >= 3:
            ctx.notes.append("%s search stopped after 3 missing objects; remaining graphs not searched" % which)
            return


def rgen_cases(ctx):
    return ctx.gen("structural/RandGen.tla", "structural/RandGen.cfg", subst=dict(PART="all", SALT=ctx.seed % 1000),
                   name="R1+R2 gen random generators: grid of calls (GilbertOK, VariateOK)")


def rgen(ctx, b, cases):
    """Random generators (Gnp, Gnm, SmallWorldsBB, PowerLaw, BipartitePowerLaw, Duplication, TunableClusteringScaleFree,
    PreferentialAttachment, NavigableSmallWorld): RandGen.tla prints the bounded grid of calls (with the R1 invariants
    GilbertOK / VariateOK on the scripted Gnp cases), the harness makes every call on real containers behind recording
    wrappers, RandGenTrace.tla judges every outcome with the clauses of RandGenDefs.tla.  Every event is judged; each
    rejected event is a violation of its own (signature structural:gen.<generator>:<clause>[:<class>]), the one-event
    trace is the replay artefact."""
    files = [cases]
    tr = os.path.join(ctx.work, "trace-rgen.ndjson")
    summ = ctx.record(b, "structural", tr, ["mode=rgen", "cases=" + ",".join(files)], name="R3 record random generator calls")
    ok, st = ctx.validate("structural/RandGenTrace.tla", "structural/RandGenTrace.cfg", tr, timeout=1200,
                          name="R3 validate random generator outcomes (every event judged)")
    events = summ.get("traces", 0)
    if ok:
        ctx.traces += events
        return
    detail = st.get("detail", "").replace('\\"', '"')
    rej = re.findall(r"<<(\d+), \{([^}]*)\}>>", detail.split(" | ")[0])
    if not rej:
        raise_undecided("random generator trace rejected without a readable list of events:\n" + detail[-1500:])
    st["events_rejected"] = len(rej)
    ctx.traces += events - len(rej)
    lines = open(tr).read().split("\n")
    keep = os.path.join(os.path.dirname(__file__), "..", "..", "replays", "C14")
    os.makedirs(keep, exist_ok=True)
    seen = {}
    for idx, names in rej:
        for clause in re.findall(r'"([^"]+)"', names):
            seen[clause] = seen.get(clause, 0) + 1
            if seen[clause] > 2:
                continue
            ev = json.loads(lines[int(idx) - 1])
            dst = os.path.abspath(os.path.join(keep, "trace-rgen-%s-ev%s-seed%d.ndjson" % (re.sub(r"[^A-Za-z0-9]+", "-", clause), idx, ctx.seed)))
            with open(dst, "w") as fh:
                fh.write(lines[int(idx) - 1] + "\n")
            par = {k: ev[k] for k in ("gen", "dst", "n", "m", "d", "q", "r", "dims", "pn", "pd", "dn", "dd", "an", "ad", "sn", "sd", "src", "pre")
                   if ev.get(k) not in (0, [], "")}
            ctx.violation("structural:gen." + clause,
                          "clause %s rejected by RandGenTrace for the call %s: created nodes %s, SetEdge/SetLine calls %s, err=%s %s panic=%r (%d events of this run fail the clause)"
                          % (clause, par, ev["new"], ev["calls"], ev["err"], ev.get("errtext", ""), ev["panic"],
                             sum(1 for _, nn in rej if '"%s"' % clause in nn)),
                          {"trace": dst, "spec": "structural/RandGenTrace.tla"})
    st["clauses_rejected"] = seen


def dcycles(ctx, b):
    """Elementary cycles beyond enumeration: seeded random digraphs of 10..20 nodes, DirectedCyclesIn on rebuilt
    containers; StructuralTrace ("dcyc" clauses) accepts only elementary cycles, none twice; CycleSearch.tla
    proves that none is missing. Sizes measured: 80 digraphs = 2*10^4 cycles, 8*10^4 TLC states."""
    args = ["mode=dcycles"] + (["graphs=100", "calls=2", "nmin=12", "nmax=20", "dmin=150", "dmax=320"] if ctx.tier == "thorough"
                               else ["graphs=80", "calls=2", "nmin=10", "nmax=18", "dmin=150", "dmax=300"])
    tr = trace(ctx, b, "dcycles", args, "dcycles")
    family_search(ctx, b, tr, [json.loads(l) for l in open(tr)], "cycle")


def raise_undecided(msg):
    # the class vlib's main() recognises by name (this module is imported under another name than vlib's user)
    import vlib
    raise vlib.Undecided(msg)


def run(ctx):
    thorough = ctx.tier == "thorough"
    b = ctx.build("")
    bins = [("default", b)]
    if thorough:
        bins.append(("tomita", ctx.build("tomita")))

    # ---- R1: the specification's own theorems ---------------------------------------------
    r1 = "structural/StructuralR1.tla", "structural/StructuralR1.cfg"
    ctx.tlc(*r1, subst=dict(N=4, DIRECTED="TRUE", INVS=D_INV), name="R1 all digraphs <= 4 nodes: definitions agree")
    ctx.tlc(*r1, subst=dict(N=5, DIRECTED="FALSE", INVS=U_INV), name="R1 all undirected graphs <= 5 nodes: definitions agree")
    ctx.tlc(*r1, subst=dict(N=4, DIRECTED="FALSE", INVS="ProductOK"), name="R1 product sizes, graphs <= 4 x <= 3 nodes")
    # products over arcs: second formulations (sizes in arcs, tensor forms of Tensor / Modular / CoNormal, ModularExt
    # against Modular, reversal, what a directed / an undirected destination holds)
    ctx.tlc(*r1, subst=dict(N=3, DIRECTED="TRUE", INVS="ProductArcOKFull" if thorough else "ProductArcOK"), workers=4,
            name="R1 products over arcs: every digraph <= 3 nodes x %d second inputs, second formulations" % (50 if thorough else 14))

    # ---- R2: exhaustive enumeration replayed into gonum ---------------------------------------
    files = [
        ("dir", gen(ctx, "dir", 0, 4)),
        ("und", gen(ctx, "und", 0, 5)),
        ("part", gen(ctx, "part", 0, 4, "{0,1,3}" if thorough else "{0,2}")),
        ("prod", gen(ctx, "prod", 0, 3)),
        # products with inputs and destinations of either kind: every ordered pair of (digraph on <= 3 nodes, held in a
        # directed container - or in an undirected one when symmetric), 82 x 82 = 6 724 pairs, arcs and edges expected
        ("prodx", gen(ctx, "prodx", 0, 3, name="R1+R2 gen products over arcs: all pairs of stored digraphs <= 3 nodes (ProdXOK)")),
        ("gen", gen(ctx, "gen", 0, 4)),
        # the full small grid of the deterministic generators: every node count 0..9 x id listings (ascending,
        # descending, rotated, every repeated id) x centre placements x every fan-out 0..10 x empty and
        # pre-populated destinations
        ("grid", gen(ctx, "grid", 0, 9, name="R1+R2 gen generator grid n=0..9 (GridOK: second formulation of every generator)")),
    ]
    if thorough:
        files.append(("und6", gen(ctx, "und", 6, 6)))
        files.append(("gen5", gen(ctx, "gen", 0, 5)))
    for bn, bp in bins:
        for tag, f in files:
            if bn == "tomita" and not tag.startswith("und"):
                continue      # the tag only changes the pivot choice of the clique search
            args = ["maps=%d" % (1 if bn == "tomita" else 3)]
            if tag == "prodx" and thorough:
                args.append("all=1")       # every id map and the multigraph destinations for every pair
            ctx.replay(bp, "structural", f, args, name="R2 replay %s [%s]" % (tag, bn))

    # ---- R3: recorded outputs judged by TLC -----------------------------------------------
    if os.path.exists(os.path.join(os.path.dirname(__file__), "..", "..", "specs", "structural", "StructuralTrace.tla")):
        fd = dict(files)
        trace(ctx, b, "exh-und", ["mode=cases", "cases=" + fd["und"], "maps=1", "stride=%d" % (1 if thorough else 4)], "exh-und")
        trace(ctx, b, "exh-dir", ["mode=cases", "cases=" + fd["dir"], "maps=1", "stride=%d" % (2 if thorough else 8)], "exh-dir")
        trace(ctx, b, "exh-part", ["mode=cases", "cases=" + fd["part"], "maps=1", "stride=%d" % (1 if thorough else 3)], "exh-part")
        trace(ctx, b, "random", ["mode=random", "count=%d" % (48 if thorough else 20), "maxn=40"], "random")
        dcycles(ctx, b)
        chromatic(ctx, b)
        if thorough:     # the tomita pivot rule changes BronKerbosch (and through the clique bound, DsaturExact's start)
            chromatic(ctx, dict(bins)["tomita"], tag="chromatic-tomita",
                      sizes=["graphs=100", "calls=8", "heur=1", "nmin=20", "nmax=34", "cliq=1"])

    # ---- added with the coverage-driven extension, independent of everything above and of each other, run side by side:
    #      control flow intervals (flow.Intervals): every digraph <= 4 nodes from every entry node, and one seed-chosen
    #      shard (1/64; thorough: 4 shards) of the digraphs on 5 nodes from entry node 1; topo.IsPathIn on every node
    #      sequence (length <= 4, 3 on 4 nodes) over every graph <= 4 nodes of either kind; topo.Equal on every ordered
    #      pair of stored graphs on node subsets of 1..3; the random generators of graph/graphs/gen (grid of calls printed
    #      by RandGen.tla, outcomes judged by RandGenTrace.tla)
    def sgen(mode, lo, hi, salt, name):
        return ctx.gen("structural/StructuralGen.tla", "structural/StructuralGen.cfg",
                       subst=dict(MODE=mode, NMIN=lo, NMAX=hi, SALT=salt % 1000, PALETTE="{0,2}"), name=name)
    shards = [ctx.seed + 271 * i for i in range(4 if thorough else 1)]
    plan = [("flow", 3, lambda: sgen("flow", 0, 4, ctx.seed, "R2 gen control flow intervals, all digraphs <= 4 nodes x entry nodes"))]
    for sd in shards:
        plan.append(("flow5", 1, lambda sd=sd: sgen("flow5", 5, 5, sd, "R2 gen control flow intervals, digraphs on 5 nodes, entry node 1: shard %d of 64"
                                                    % ((sd % 1000 * 37 + 11) % 64))))
    plan += [("walk", 3, lambda: sgen("walk", 0, 4, ctx.seed, "R2 gen IsPathIn, all graphs <= 4 nodes x node sequences")),
             ("equal", 3, lambda: sgen("equal", 0, 3, ctx.seed, "R1+R2 gen topo.Equal, all pairs of stored graphs on subsets of 1..3 (EqualOK)")),
             ("rgen", 0, lambda: rgen_cases(ctx))]
    made = ctx.parallel([p[2] for p in plan], width=4)

    def stage(tag, maps, f):
        if tag == "rgen":
            return lambda: rgen(ctx, b, f)
        return lambda: ctx.replay(b, "structural", f, ["maps=%d" % maps], name="R2 replay %s [default]" % tag)
    ctx.parallel([stage(p[0], p[1], f) for p, f in zip(plan, made)], width=4)

    # ---- traversals as state machines (the walker modules of the extra check X02, run here because the
    #      traversal clause belongs to this property): Traverse.tla / TraverseImpl.tla / TraverseTrace.tla
    #      (BreadthFirst / DepthFirst: Walk, continued Walk, Reset and reuse, WalkAll, callbacks) and the
    #      NodeStack / NodeQueue behind them (Linear.tla / LinearImpl.tla).
    x02 = _x02()
    hb = x02.build_shim(ctx, "")
    ctx.parallel([lambda: x02.traverse_r1(ctx), lambda: x02.traverse_r3(ctx, hb), lambda: x02.linear_part(ctx, hb)], width=3)

    ctx.assumptions += [
        "TLC/SANY and the CommunityModules Json module are trusted",
        "the harness's container builders, id binding (model id <-> real id) and set/bag comparison are trusted",
        "iteration order of gonum containers is not controlled (Go map order); results are compared as sets/bags",
        "traverse: the walker is only used the documented way (Reset after an early exit; Walk from a node not yet visited); "
        "graph/internal/linear is reached through a one-file alias package injected with `go build -overlay`",
    ]
    return ctx.finish(
        rule="R2: one case = one enumerated graph (or graph + partial colouring / graph pair / generator call) "
             "built in one container type under one id map with all routines of its family called and compared; "
             "non-trivial = the graph has at least one edge (partial colouring non-empty, product non-empty, "
             "generator call with edges or a documented panic). R3: one trace = one recorded graph event "
             "accepted by TLC. Traversals: one case = one recorded Walk / WalkAll call of a real walker accepted by "
             "TLC; one history of NodeStack / NodeQueue calls.",
        exhaustive=True)


def _x02():
    import importlib.util
    import os as _os
    p = _os.path.join(_os.path.dirname(_os.path.abspath(__file__)), "X02.py")
    spec = importlib.util.spec_from_file_location("prop_X02_for_C14", p)
    mod = importlib.util.module_from_spec(spec)
    spec.loader.exec_module(mod)
    return mod


def replay(ctx, path):
    d = json.load(open(path))["data"]
    if "trace" in d and str(d.get("spec", "")).startswith("misc/"):
        ok, st = ctx.validate(d["spec"], d["spec"].replace(".tla", ".cfg"), d["trace"], subst=d.get("cfg") or {})
        print("trace accepted" if ok else "trace rejected: " + st.get("detail", "")[:800])
        if not ok:
            print("VIOLATION property=C14 replay=%s" % path)
        return 0 if ok else 1
    if str(d.get("area", "")).startswith("misc-"):
        one = os.path.join(ctx.work, "one.ndjson")
        with open(one, "w") as fh:
            fh.write(json.dumps(d["failure"]["case"]) + "\n")
        ctx.replay(_x02().build_shim(ctx, ""), d["area"], one, d["args"], confirm=False)
        return ctx.finish()
    if "trace" in d:
        ok, st = ctx.validate(d["spec"], d["spec"].replace(".tla", ".cfg"), d["trace"], subst=d.get("subst"),
                              accept_re=d.get("accept_re", r"TRACE-ACCEPTED (\d+)"))
        print("trace accepted" if ok else "trace rejected: " + st.get("detail", "")[:800])
        if not ok:
            print("VIOLATION property=C14 replay=%s" % path)
        return 0 if ok else 1
    one = os.path.join(ctx.work, "one.ndjson")
    with open(one, "w") as fh:
        fh.write(json.dumps(d["failure"]["case"]) + "\n")
    ctx.replay(ctx.build(""), d["area"], one, d["args"], confirm=False)
    return ctx.finish()
