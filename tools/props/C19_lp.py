"""C19, LP clause - the simplex solver returns a feasible point whose cost equals the true optimum
or correctly classifies the program as infeasible, unbounded or singular; Convert preserves the
optimum of the general form.

specs/lp/LpDefs.tla   exact LP semantics over integer data: every basis, integer determinants, Cramer;
                      the four classes stated independently; optimum = least cost over all feasible bases
specs/lp/Lp.tla       bounded spaces of standard-form programs (exhaustive small, seeded pseudo-random up to
                      4x7 incl. slack form [R|I], classic cycling examples in all 24 column orders x 2 slack layouts) + theorems TLC checks on every
                      generated program (Exclusive, ClassAgrees, CertValue, WeakDuality, Shape, Invariance)
specs/lp/LpConvert.tla general-form programs classified on the general form (vertices and extreme rays) +
                      theorem ConvertPreserves (textbook standard form has the same class and optimum)

Direction spec->code: every printed program is given to lp.Simplex (no initial basis, tol 1e-10 and 1e-6, and
once per feasible basis the spec named as explicit initialBasic) resp. lp.Convert + lp.Simplex; the returned
error / point / value is judged against the class and exact rational optimum TLC printed.
A general-form program is a set of VALUES: the harness hands every one of them to Convert with G and A stored
as a compact Dense, as a Slice view into a wider junk-filled matrix (G cut out of [junk | G | h | junk]: stride !=
columns), as the transpose view of a Dense and as a user type that is a mat.Matrix and nothing else (all four, and
two seed-chosen mixed pairs), the vectors as exact allocations or as windows of longer junk-filled arrays; class
and optimum are the specification's for each of them, and no operand (junk included) may change (harness/internal/lp/lp.go).

run_lp(ctx) performs the stages and does not call ctx.finish (the caller, tools/props/C19.py, does).
"""
import os

# Genuine defects of gonum found by this check (see tools/props/C19_lp.notes.md). They are NOT suppressed
# here: suppression is the business of known_findings.json.  tools/props/C19lp.py (stand-alone test driver)
# installs them in memory so that the stand-alone run shows the state "all known".
PROPOSED_KNOWN = [
    {"id": "C19-LP1", "status": "known",
     "match": r"^lp:simplex:(ib|nil|conv):hang:wide:degenerate:classic$",
     "what": "lp.Simplex cycles forever at a degenerate vertex: replaceBland (optimize/convex/lp/simplex.go) applies "
             "Bland's rule to POSITIONS in nonBasicIdx/basicIdxs, which are permuted by every swap, not to variable "
             "indices (e.g. Chvatal's example with the slack columns first, no initial basis: c=[0,0,0,9,24,57,-10] "
             "A=[[1,0,0,-5,18,-11,1],[0,1,0,-1,2,-3,1],[0,0,1,0,0,0,1]] b=[0,0,1] tol=1e-10 initialBasic=nil never "
             "returns, optimum is -1; slack columns last: c=[-10,57,9,24,0,0,0] A=[[1,-11,-5,18,1,0,0],"
             "[1,-3,-1,2,0,1,0],[1,0,0,0,0,0,1]] initialBasic=[0,1,3]: period-12 cycle)"},
    {"id": "C19-LP2", "status": "known",
     "match": r"^lp:simplex:nil:error-on-optimal:ErrInfeasible:square:degenerate$",
     "what": "lp.Simplex, m == n path (simplex.go: 'if v < 0 { return ErrInfeasible }' after SolveVec) has no "
             "tolerance: a solution component that is exactly 0 comes out of the float solve as -1e-17 and the "
             "feasible program is reported infeasible (e.g. c=[-1,-1,-1] A=[[-1,1,-1],[3,-1,2],[-1,-1,2]] "
             "b=[3,1,1]: x=(0,7,4), optimum -11)"},
]


def _std(mode, m, n, a, b, c, count):
    return dict(MODE=mode, M=m, N=n, ANEG=a[0], APOS=a[1], BNEG=b[0], BPOS=b[1], CNEG=c[0], CPOS=c[1], COUNT=count)


def _size(m, n, a, b, c):
    return (a[0] + a[1] + 1) ** (m * n) * (b[0] + b[1] + 1) ** m * (c[0] + c[1] + 1) ** n


def _gen(mode, nv, ni, ne, d, h, count):
    return dict(MODE=mode, NV=nv, NI=ni, NE=ne, DNEG=d[0], DPOS=d[1], HNEG=h[0], HPOS=h[1], COUNT=count,
                CHECKSTD="TRUE")


def _gsize(nv, ni, ne, d, h):
    return (d[0] + d[1] + 1) ** ((ni + ne) * nv + nv) * (h[0] + h[1] + 1) ** (ni + ne)


def families(th, seed):
    """(name, spec, cfg, subst, nshards, seeded)"""
    k = 12 if th else 1
    F = []

    def std(name, mode, m, n, a, b, c, count=None, shards=4):
        if mode == "exh":
            count = _size(m, n, a, b, c)
        F.append((name, "lp/Lp.tla", "lp/Lp.cfg", _std(mode, m, n, a, b, c, count), shards, mode != "exh"))

    def gen(name, mode, nv, ni, ne, d, h, count=None, shards=4):
        if mode == "exh":
            count = _gsize(nv, ni, ne, d, h)
        F.append((name, "lp/LpConvert.tla", "lp/LpConvert.cfg", _gen(mode, nv, ni, ne, d, h, count), shards, mode == "rnd"))

    # ---- exhaustive small spaces (seed independent, cached) ----
    std("exh 1x2 [-2,2]", "exh", 1, 2, (2, 2), (2, 2), (2, 2), shards=1)
    std("exh 1x3 [-1,2]", "exh", 1, 3, (1, 2), (1, 2), (1, 2), shards=1)
    std("exh 2x2 A,b[-1,2] c[0,1]", "exh", 2, 2, (1, 2), (1, 2), (0, 1), shards=1)
    std("exh 2x3 A[-1,1] b[0,1] c[-1,0]", "exh", 2, 3, (1, 1), (0, 1), (1, 0), shards=4)
    if th:
        std("exh 2x3 A[-1,1] b[-1,1] c[-1,1]", "exh", 2, 3, (1, 1), (1, 1), (1, 1), shards=8)
        std("exh 2x4 A[0,1] b[0,1] c[-1,1]", "exh", 2, 4, (0, 1), (0, 1), (1, 1), shards=8)
        std("exh 3x3 A[-1,1] b[0,1] c[0,0]", "exh", 3, 3, (1, 1), (0, 1), (0, 0), shards=8)
    # ---- seeded samples of larger spaces (k = 1 quick, 12 thorough) ----
    w = 8 if th else 2
    std("rnd 2x4 [-1,2]", "rnd", 2, 4, (1, 2), (1, 2), (1, 2), 3000 * k, shards=w)
    std("rnd 2x4 degenerate A[-1,1] b[0,1] c[-2,2]", "rnd", 2, 4, (1, 1), (0, 1), (2, 2), 2000 * k, shards=w)
    std("rnd 2x5 [-2,2]", "rnd", 2, 5, (2, 2), (1, 2), (2, 2), 1500 * k, shards=w)
    std("rnd 3x3 square [-2,3]", "rnd", 3, 3, (2, 3), (2, 3), (1, 1), 2000 * k, shards=w // 2)
    std("rnd 3x5 A[-1,2] b[0,2] c[-2,2]", "rnd", 3, 5, (1, 2), (0, 2), (2, 2), 1500 * k, shards=w)
    std("rnd 3x6 [-2,3]", "rnd", 3, 6, (2, 3), (2, 3), (2, 3), 1500 * k, shards=2 * w)
    std("rnd 3x6 degenerate A[-1,1] b[0,1] c[-2,1]", "rnd", 3, 6, (1, 1), (0, 1), (2, 1), 1500 * k, shards=2 * w)
    # [R | I] x = b >= 0 with cost [cR | 0]: the shape Convert produces, slack basis feasible, degenerate-rich
    std("slack 2x5 R[-3,3] b[0,1] c[-3,2]", "slack", 2, 5, (3, 3), (0, 1), (3, 2), 1000 * k, shards=w // 2)
    std("slack 3x7 R[-3,3] b[0,1] c[-3,2]", "slack", 3, 7, (3, 3), (0, 1), (3, 2), 600 * k, shards=2 * w)
    std("rnd 4x4 square [-1,2]", "rnd", 4, 4, (1, 2), (1, 2), (1, 1), 500 * k, shards=w // 2)
    std("rnd 4x6 A[-1,1] b[0,2] c[-1,1]", "rnd", 4, 6, (1, 1), (0, 2), (1, 1), 160 * k, shards=w)
    std("rnd 4x7 [-1,2]", "rnd", 4, 7, (1, 2), (1, 2), (1, 2), 96 * k, shards=2 * w)
    # ---- general form (Convert) ----
    gen("conv exh nv1 ni2 [-2,2]", "exh", 1, 2, 0, (2, 2), (2, 2), shards=1)
    gen("conv rnd nv1 ni3", "rnd", 1, 3, 0, (2, 2), (2, 3), 500 * k, shards=w // 2)
    gen("conv rnd nv2 ni2", "rnd", 2, 2, 0, (2, 2), (2, 3), 1000 * k, shards=w // 2)
    gen("conv rnd nv2 ni3", "rnd", 2, 3, 0, (2, 2), (2, 3), 320 * k, shards=2 * w)
    gen("conv rnd nv2 ni2 ne1", "rnd", 2, 2, 1, (2, 2), (2, 3), 600 * k, shards=w)
    gen("conv rnd nv3 ni3", "rnd", 3, 3, 0, (1, 2), (1, 2), 120 * k, shards=w)
    gen("conv rnd nv3 ni2 ne1", "rnd", 3, 2, 1, (1, 2), (1, 2), 120 * k, shards=w)
    gen("conv rnd nv2 ni3 ne1", "rnd", 2, 3, 1, (1, 2), (1, 2), 24 * k, shards=w)
    # two and more equality rows (the block [A, -A, 0] of the standard form has >= 2 rows), and programs with
    # equalities only (pointed <=> NE = NV: the feasible set is one point or empty after the sign split)
    gen("conv rnd nv3 ni2 ne2", "rnd", 3, 2, 2, (1, 2), (1, 2), 60 * k, shards=w)
    gen("conv rnd nv3 ni1 ne2", "rnd", 3, 1, 2, (1, 2), (1, 2), 60 * k, shards=w // 2)
    gen("conv rnd nv2 ni1 ne2", "rnd", 2, 1, 2, (2, 2), (2, 3), 120 * k, shards=w // 2)
    gen("conv rnd nv2 ni0 ne2 (equalities only)", "rnd", 2, 0, 2, (2, 2), (2, 3), 100 * k, shards=w // 2)
    gen("conv rnd nv3 ni0 ne3 (equalities only)", "rnd", 3, 0, 3, (1, 2), (1, 2), 60 * k, shards=w // 2)
    if th:
        gen("conv rnd nv2 ni4", "rnd", 2, 4, 0, (1, 2), (1, 2), 400, shards=8)
    return F


def run_lp(ctx):
    th = ctx.tier == "thorough"
    # default (assembly kernels) and pure-Go kernels: the float solves inside Simplex round differently
    bins = [("default", ctx.build("")), ("noasm", ctx.build("noasm"))]
    wd = ["watchdog=5s" if th else "watchdog=3s", "maxhangs=8"]

    # ---- R1: invariance of class and optimum under re-presentation of the program -------------
    inv = dict(EMIT="FALSE", EXTRA="Invariance", SEED=ctx.seed, SHARD=0, NSHARDS=1)

    def r1_a():
        ctx.tlc("lp/Lp.tla", "lp/Lp.cfg", workers=2, name="R1 Lp theorems + Invariance, exh 1x3 [-1,1]",
                subst=dict(_std("exh", 1, 3, (1, 1), (1, 1), (1, 1), 3 ** 7), **inv))

    def r1_b():
        ctx.tlc("lp/Lp.tla", "lp/Lp.cfg", workers=2, name="R1 Lp theorems + Invariance, rnd 2x4",
                subst=dict(_std("rnd", 2, 4, (1, 2), (1, 2), (1, 2), 1500 if th else 100), **inv))

    def r1_c():
        ctx.tlc("lp/Lp.tla", "lp/Lp.cfg", workers=4, name="R1 Lp theorems + Invariance, rnd 3x5",
                subst=dict(_std("rnd", 3, 5, (1, 2), (1, 2), (1, 2), 120), **inv), timeout=1500)

    thunks = [r1_a, r1_b] + ([r1_c] if th else [])

    # ---- R2: generator -> replay ---------------------------------------------------------------
    def one(name, spec, cfg, sub, shard, ns):
        s = dict(sub, SHARD=shard, NSHARDS=ns, EMIT="TRUE", SEED=ctx.seed)
        if "MODE" in sub and spec.endswith("Lp.tla"):
            s["EXTRA"] = ""
        cases = ctx.gen(spec, cfg, subst=s, name="R1+R2 gen %s shard %d/%d" % (name, shard, ns))
        for bn, b in bins:
            ctx.replay(b, "lp", cases, wd, name="R2 replay %s shard %d/%d [%s]" % (name, shard, ns, bn))

    for name, spec, cfg, sub, ns, _ in families(th, ctx.seed):
        for sh in range(ns):
            thunks.append(lambda name=name, spec=spec, cfg=cfg, sub=sub, sh=sh, ns=ns: one(name, spec, cfg, sub, sh, ns))

    # classic cycling examples, all 24 orders of the structural columns x {slack columns last, first};
    # small files so that the hang budget of one replay process does not hide the remaining programs
    def named():
        s = dict(_std("named", 3, 7, (0, 0), (0, 0), (0, 0), 144), SHARD=0, NSHARDS=1, EMIT="TRUE", SEED=0, EXTRA="")
        cases = ctx.gen("lp/Lp.tla", "lp/Lp.cfg", subst=s, name="R1+R2 gen classics (Chvatal, Beale, Kuhn) x 24 column orders x 2 slack layouts")
        lines = open(cases).read().splitlines()
        per = 6 if th else 48
        for i in range(0, len(lines), per):
            part = os.path.join(ctx.work, "named-%d.ndjson" % i)
            with open(part, "w") as fh:
                fh.write("\n".join(lines[i:i + per]) + "\n")
            ctx.replay(bins[0][1], "lp", part, ["watchdog=2s", "maxhangs=%d" % (6 if th else 2), "tag=classic"],
                       name="R2 replay classics %d..%d" % (i, i + per - 1))

    thunks.append(named)
    ctx.parallel(thunks, width=8)

    ctx.assumptions += [
        "LP: TLC/SANY/Json trusted; the harness's operand builders and its exact (big.Rat) evaluation of the "
        "conditions the property names on the returned point (x >= -tol, |Ax-b| <= tol, |c.x-value| <= tol(1+|value|)) trusted",
        "LP: programs with a zero row or zero column of A are excluded by lp.Simplex's documentation; for them only "
        "'returns an error, does not panic or hang' is required",
        "LP: the data are small integers, so every vertex value and reduced cost is a rational with a small denominator: "
        "tol in {1e-10, 1e-6} cannot legitimately stop the solver at a non-optimal vertex",
    ]
    return LP_RULE


LP_RULE = ("LP: one case = one call of lp.Simplex (or lp.Convert + lp.Simplex) on a program printed by TLC; non-trivial = "
           "the program is not an excluded input and its answer is not forced (class other than optimal, or at least "
           "two feasible vertices of different cost)")
