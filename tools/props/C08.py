"""C08 - slice primitives equal their scalar definitions in every build configuration.

R1  TLC checks the specification's own lemmas: the aliasing lemma (SliceAlias.tla: the scalar
    loop executed element by element with dst aliasing a source equals the functional
    definition, for every content over a 4-value alphabet incl. -0 and +Inf), the storage-map
    lemma for strided vectors, the IEEE laws of the extended-integer tables (ASSUMEs) and the
    order-independence of the sums on the emitted data (OrderFree).
R2  spec->code: TLC enumerates function x length 0..70 x data variant (salted integer data plus
    injected NaN / +-Inf / -0 at swept positions, ordered PAIRS of specials at two swept positions for
    every reduction / norm / distance incl. the strided float64, float32 and complex forms, special scalars) from SlicePrims.tla and prints
    operands and expected results; the harness places the operands at every start offset 0..7
    past a 64-byte boundary (guard elements around them), fresh destination / destination
    aliasing a source, calls gonum (floats, BLAS level 1 float64 and float32 with increments
    +-1..5) and compares bit for bit (NaN by IsNaN, sign of zero by bits; Euclidean norms at
    exponents 2^-1040 .. 2^1010 against the exact value with the spec's rounding bound in
    big.Rat) - in the default (assembly), noasm and safe builds.
    Extension (coverage-driven, W15): SliceExt.tla states the functions of cmplxs and floats that have no
    integer-valued scalar loop - moduli on Pythagorean pairs (Abs, Norm / Distance for L = 1, 2, inf and a
    general L on cubes summing to a cube), Count / Find / Equal / Same / HasNaN / EqualFunc / EqualLengths /
    EqualApprox (inequalities decided on squared integers; exact ties where hypot may round are "open"),
    Span (l + i step on Gaussian integers, documented endpoints), LogSpan (powers of two: exact power within a
    derived bound, documented endpoints, the zero / negative clauses), MaxAbs / MinAbs / NearestIdx with NaN and
    infinite entries, LogSumExp (classes, one finite element, shift invariance), SumCompensated (exact data
    and the cancellation pattern: better than the plain sum), NearestIdxForSpan's special cases, the
    documented panics of 57 functions as a decision table over argument lengths 0..3, the strided ...To
    kernels and LinfDist of internal/asm called directly (no exported caller exists), internal/math32 and
    internal/cmplx64.  kern.go binds the existing unit-stride families to the f32 / c64 / c128 / f64 kernels
    that no exported function reaches.  CScalar.tla: cmplxs/cscalar (tolerance predicates on Gaussian
    quarter-integers, Round / RoundEven, Same, ParseWithNA on a token grid of the documented grammar) and the
    number grammar of floats/scalar.ParseWithNA; floats/scalar itself through X01's ScalarFloat.tla, reused
    unchanged in all three builds.
    Extension (seed C08-6, W22): the complex element-wise families also run on elements whose real / imaginary
    COMPONENTS are extended integers (SlicePrims.tla, ZCase; lemmas ZLaws in SliceAlias.tla): Add / Sub / AddConst /
    CumSum / Sum / Real / Imag / Complex / ScaleReal / zdscal are component-wise by definition (an element such as
    Inf+2i keeps its finite component), Scale / Mul / MulConj / AddScaled / zscal / zaxpy contain the product of the
    Go language (ac - bd) + (ad + bc)i evaluated with the IEEE tables; where that formula gives NaN+NaNi although a
    factor is infinite (C99 Annex G would return an infinity) the position is open.  A call that kills the process (memory fault inside an assembly kernel) is
    executed alone in a process of its own (isolated()).
"""
import json
import os

from vlib import SPECS, sh, GOENV

G = lambda *a: "{" + ",".join('"%s"' % x for x in a) + "}"

# name, functions, (nmax, nvar) quick, (nmax, nvar) thorough
GROUPS = [
    ("elementwise", G("Add", "AddTo", "Sub", "SubTo", "Mul", "MulTo", "Div", "DivTo", "AddConst", "Scale",
                      "ScaleTo", "AddScaled", "AddScaledTo"), (70, 11), (70, 44), ""),
    ("reductions", G("CumSum", "CumProd", "Sum", "Prod", "Dot", "Norm1", "Dist1", "NormInf", "DistInf"), (70, 10), (70, 40), ""),
    ("norm2", G("Norm2", "Dist2", "Nrm2Inc"), (70, 5), (70, 20), ""),
    ("index", G("MaxIdx", "MinIdx", "NearestIdx", "Within", "Find", "Count"), (70, 10), (70, 40), ""),
    ("sort", G("Argsort", "ArgsortStable"), (40, 4), (70, 16), ""),
    ("span", G("Span", "SpanEnds", "SpanEndsFin", "NearestIdxForSpan"), (70, 11), (70, 44), ""),
    ("strided", G("Axpy", "DotInc", "ScalInc", "AsumInc"), (70, 10), (70, 30), ""),
    ("complex", G("CAdd", "CAddTo", "CSub", "CSubTo", "CMul", "CMulTo", "CMulConj", "CMulConjTo", "CDiv", "CDivTo",
                  "CAddConst", "CScale", "CScaleTo", "CScaleReal", "CScaleRealTo", "CAddScaled", "CAddScaledTo",
                  "CCumSum", "CCumProd", "CSum", "CProd", "CDot", "CReal", "CImag", "CComplex", "CMaxAbsIdx",
                  "CMinAbsIdx"), (70, 4), (70, 14), "CDivOK"),
    ("bool-reverse", G("EqualSame", "Reverse"), (70, 9), (70, 30), ""),
    ("spatial", G("R3Add", "R3Sub", "R3Scale", "R3Dot", "R3Cross", "R3Norm2", "R2Add", "R2Sub", "R2Scale", "R2Dot",
                  "R2Cross", "R2Norm2", "R3MatMulVec", "R3MatMulVecTrans", "R3MatAdd", "R3MatSub", "R3MatScale",
                  "R3MatMul", "R3MatDet", "R3MatOuter", "R3MatSkew", "R3MatT", "R3VecRow", "R3VecCol"), (20, 7), (70, 14), ""),
    # ordered pairs of special values {NaN,+Inf,-Inf,-0}^2 at two swept positions (16 kind pairs per
    # length; the position-class pair rotates with length/seed; thorough: all 16 x 21 per length <= 24)
    ("pairs", G("SumP", "DotP", "Norm1P", "NormInfP", "Norm2P", "Dist1P", "DistInfP", "Dist2P", "CumSumP",
                "MaxIdxP", "MinIdxP"), (40, 16), (70, 64), ""),
    ("pairs-strided", G("DotIncP", "AsumIncP", "Nrm2IncP", "CNorm2P", "CNrm2P", "CAsumP"), (40, 16), (70, 64), ""),
    ("complex-strided", G("CNorm2", "CAxpy", "CDotu", "CDotc", "CScal", "CDscal", "CAsum", "CNrm2"), (70, 5), (70, 20), ""),
    # complex elements whose COMPONENTS are extended integers (one element of x, in half of the variants one of y,
    # follows one of 18 component patterns such as Inf+2i, 3+NaNi, Inf-Infi, -0+1i; special scalars): the
    # component-wise definitions, and the full complex products by the Go formula with "open" positions
    ("complex-special-cw", G("ZCAdd", "ZCAddTo", "ZCSub", "ZCSubTo", "ZCAddConst", "ZCScaleReal", "ZCScaleRealTo", "ZCReal",
                             "ZCImag", "ZCComplex", "ZCCumSum", "ZCSum", "ZCDscal"), (70, 9), (70, 36), ""),
    ("complex-special-prod", G("ZCScale", "ZCScaleTo", "ZCMul", "ZCMulTo", "ZCMulConj", "ZCMulConjTo", "ZCAddScaled",
                               "ZCAddScaledTo", "ZCScal", "ZCAxpy"), (70, 9), (70, 36), ""),
]
PAIRS_ALL = G("SumP", "DotP", "Norm1P", "NormInfP", "Norm2P", "Dist1P", "DistInfP", "Dist2P", "CumSumP", "MaxIdxP", "MinIdxP")
PAIRS_STRIDED_ALL = G("DotIncP", "AsumIncP", "Nrm2IncP", "CNorm2P", "CNrm2P", "CAsumP")
# unit-stride kernels at long lengths (thorough): formula-valued integer data only
LONGF = G("AddTo", "AddScaled", "ScaleTo", "Sum", "Dot", "CumSum", "Norm1", "Norm2", "MaxIdx", "CAddScaled", "CDot")
LONGLIN = G("AddTo", "AddScaled", "ScaleTo", "Sum", "Dot", "Norm1", "Norm2")   # linear-time definitions only
LONG = [("long-257", 257, LONGF), ("long-1000", 1000, LONGF), ("long-4099", 4099, LONGF), ("long-10000", 10000, LONGLIN)]


# ---- extension (SliceExt.tla): functions of cmplxs / floats without an integer scalar loop, the
# documented panics, kernels of internal/asm without an exported caller, internal/math32+cmplx64
# name, functions, (nmax, nvar) quick, (nmax, nvar) thorough
XGROUPS = [
    ("cx-moduli", G("CAbs", "CDist1", "CDistInf", "CDist2", "CDistL3", "CNorm1", "CNormInf", "CNormL3"), (70, 6), (70, 24)),
    ("cx-index-bool", G("CCount", "CFind", "CEqualSame", "CEqualApprox", "CReverse", "CMaxAbsV", "CMinAbsV", "CNearestIdx"),
     (70, 10), (70, 40)),
    ("spans", G("CSpan", "CSpanEnds", "CSpanEndsFin", "CLogSpan", "CLogSpanZ", "LogSpan", "LogSpanZ"), (70, 9), (70, 36)),
    ("floats-more", G("EqualApprox", "LogSumExp", "SumComp", "NormL3", "DistL3", "NISpanInf"), (70, 12), (70, 48)),
    ("kernels-to", G("KScalIncTo", "KAxpyIncTo", "KCScalIncTo", "KCAxpyIncTo", "KLinfDist"), (70, 11), (70, 44)),
    # the length field enumerates an argument grid here (lengths 0..3 of up to three slices, 9 x 9 special values)
    ("grids", G("NISpan2", "EqualLens", "Panics", "M32"), (80, 60), (80, 60)),
]


# calls that the harness does not execute in its main process because a fault in them kills it
# (harness/internal/slices isoCall): (spec function, length, binding, start offset, mode)
ISOLATED = [("CAddScaledTo", 1, "c64.AxpyUnitaryTo", 0, "fresh")]


def isolated(ctx, bins, builds, cases):
    """One spec-emitted call per process. A process killed by a memory fault inside the gonum kernel (twice
    in a row) is a violation whose replay object is that single case; any other failure of the process is
    the machinery's (UNDECIDED)."""
    for fn, n, bind, off, mode in ISOLATED:
        case = None
        for line in open(cases):
            d = json.loads(line)
            if d["f"] == fn and d["n"] == n and not d.get("skip"):
                case = d
                break
        if case is None:
            continue
        case.update(only=bind, off=off, mode=mode)
        one = os.path.join(ctx.work, "iso-%s.ndjson" % bind)
        with open(one, "w") as fh:
            fh.write(json.dumps(case) + "\n")
        for bn, _ in builds:
            faults = 0
            cmd = [bins[bn], "replay", "slices", "-in", one, "-seed", str(ctx.seed), "iso"]
            for attempt in range(2):
                rc, out, dt = sh(cmd, 600, env=dict(GOENV))
                if rc != 0 and is_fault(out, rc):
                    faults += 1
                    ctx.stages.append({"stage": "R2 isolated %s n=%d [%s] attempt %d" % (bind, n, bn, attempt + 1), "kind": "spec->code",
                                       "cases": 1, "process_killed_by_memory_fault": True, "rc": rc, "seconds": round(dt, 1)})
                    continue
                # the process survived (or failed for another reason): the ordinary replay judges the result
                ctx.replay(bins[bn], "slices", one, ["iso"], name="R2 isolated %s n=%d [%s]" % (bind, n, bn))
                break
            if faults == 2:
                ctx.cases += 1
                ctx.traces += 1
                ctx.violation("slices:%s:fault" % bind,
                              "%s n=%d off=%d mode=%s [%s build]: the call on valid arguments kills the process with a "
                              "memory fault (SIGSEGV inside the kernel; reproduced twice, each time alone in a fresh process)"
                              % (fn, n, off, mode, bn),
                              {"area": "slices", "args": ["iso"], "failure": {"sig": "slices:%s:fault" % bind, "case": case}})


def is_fault(text, rc=0):
    """The harness process was killed from inside: a signal (SIGSEGV, or SIGTRAP / SIGBUS once the runaway kernel
    has overwritten the heap) or a fatal error of the Go runtime.  Its own errors exit with status 1 and a message."""
    return rc < 0 or rc > 128 or "SIGSEGV" in text or "fatal error:" in text or "unexpected fault address" in text


def load_proposed(ctx):
    """Findings of this extension that are not (yet) in known_findings.json (read-only for the builder) are
    listed, ready to paste, in C08.proposed_findings.json.  They are NOT honoured by default: the check
    reports them as violations.  With VERIF_C08_ACCEPT_PROPOSED=1 they are treated like known findings (exact
    signatures), which shows that nothing else fails."""
    p = os.path.join(os.path.dirname(os.path.abspath(__file__)), "C08.proposed_findings.json")
    if os.environ.get("VERIF_C08_ACCEPT_PROPOSED") == "1" and os.path.exists(p):
        have = {k.get("id") for k in ctx.known}
        for k in json.load(open(p)).get("findings", []):
            if k.get("id") not in have:
                ctx.known.append(k)


def run(ctx):
    os.makedirs(os.path.join(SPECS, "lib"), exist_ok=True)
    load_proposed(ctx)
    thorough = ctx.tier == "thorough"
    builds = [("default", ""), ("noasm", "noasm"), ("safe", "safe")]
    bins = dict(zip([n for n, _ in builds], ctx.parallel([(lambda t=t: ctx.build(t)) for _, t in builds], width=3)))
    seed = ctx.seed % 1000

    # ---- R1 ---------------------------------------------------------------
    n2, n1 = (4, 6) if thorough else (3, 5)
    r1 = [lambda: ctx.tlc("slices/SliceAlias.tla", "slices/SliceAlias.cfg", subst=dict(N2=n2, N1=n1), workers=4,
                          name="R1 aliasing lemma (dst aliases a source, lengths<=%d/%d), VecIdx lemma, IEEE table laws" % (n2, n1)),
          lambda: ctx.tlc("slices/SlicePrims.tla", "slices/SlicePrims_model.cfg", workers=4,
                          subst=dict(NMAX=40 if thorough else 24, NVAR=16 if thorough else 8, SEED=seed),
                          name="R1 sums of the emitted data are independent of accumulation order")]

    # ---- R2 ---------------------------------------------------------------
    def replay_all(cases, label, area="slices", args=()):
        for bn, _ in builds:
            ctx.replay(bins[bn], area, cases, list(args), name="R2 replay %s [%s]" % (label, bn))

    def group(name, fns, q, t, extra):
        nmax, nvar = t if thorough else q
        cases = ctx.gen("slices/SlicePrims.tla", "slices/SlicePrims_gen.cfg", name="R2 gen " + name,
                        subst=dict(FNS=fns, NMIN=0, NMAX=nmax, NVAR=nvar, SEED=seed, EXTRA=extra))
        replay_all(cases, name)
        if name == "complex":
            isolated(ctx, bins, builds, cases)

    def xgroup(name, fns, q, t):
        nmax, nvar = t if thorough else q
        # the module's ASSUMEd lemmas (R1) are evaluated by TLC at the start of every generator run
        cases = ctx.gen("slices/SliceExt.tla", "slices/SliceExt_gen.cfg", name="R1+R2 gen ext " + name,
                        subst=dict(FNS=fns, NMIN=0, NMAX=nmax, NVAR=nvar, SEED=seed))
        replay_all(cases, "ext " + name)

    def cscalar(mode):
        cases = ctx.gen("slices/CScalar.tla", "slices/CScalar.cfg", subst=dict(MODE=mode),
                        name="R1+R2 gen cscalar %s (lemmas checked as ASSUMEs)" % mode)
        replay_all(cases, "cscalar " + mode, area="cscalar", args=["float"] if mode == "fparse" else [])

    def scalarfloat(mode):
        # floats/scalar: the specification of the extra check X01 (specs/misc/ScalarFloat.tla, bound by
        # harness/internal/misc) is reused unchanged, here in all three build configurations
        cases = ctx.gen("misc/ScalarFloat.tla", "misc/ScalarFloat.cfg", subst=dict(MODE=mode, WIDE="TRUE" if thorough else "FALSE"),
                        name="R1+R2 gen floats/scalar %s (X01 ScalarFloat.tla)" % mode)
        replay_all(cases, "floats/scalar " + mode, area="scalar")

    jobs = list(r1)
    jobs += [(lambda g=g: group(*g)) for g in GROUPS]
    jobs += [(lambda g=g: xgroup(*g)) for g in XGROUPS]
    jobs += [(lambda m=m: cscalar(m)) for m in ("eq", "round", "parse", "fparse")]
    jobs += [(lambda m=m: scalarfloat(m)) for m in ("ulp", "round", "eq", "nan", "parse")]
    ctx.parallel(jobs, width=4)
    if thorough:
        for name, fns in (("pairs-all", PAIRS_ALL), ("pairs-strided-all", PAIRS_STRIDED_ALL)):
            cases = ctx.gen("slices/SlicePrims.tla", "slices/SlicePrims_gen.cfg", name="R2 gen " + name,
                            subst=dict(FNS=fns, NMIN=2, NMAX=24, NVAR=336, SEED=seed, EXTRA=""), timeout=1500)
            replay_all(cases, name)
        for name, n, fns in LONG:
            cases = ctx.gen("slices/SlicePrims.tla", "slices/SlicePrims_gen.cfg", name="R2 gen " + name,
                            subst=dict(FNS=fns, NMIN=n, NMAX=n, NVAR=2, SEED=seed, EXTRA=""), timeout=1500)
            replay_all(cases, name)

    ctx.assumptions += [
        "TLC/SANY and the CommunityModules Json module are trusted",
        "the harness's operand placement (offset past a 64-byte boundary, guard elements), the decoding of the "
        "spec's value codes (NaN, +-Inf, -0, m*2^e by math.Ldexp) and the bitwise / big.Rat comparison are trusted",
        "internal/asm kernels are reached through their exported callers (floats, blas/gonum level 1); kernels "
        "with no exported unit-stride caller are not exercised directly",
        "the predicate passed to Find/Count is v > 0 on both sides (cmplxs: real(z) > 0; EqualFunc: |a| = |b| for floats, equal "
        "real parts for cmplxs): the harness mirrors the predicates the specification names",
        "moduli, 1-norms, max-norms, general-L norms, LogSpan interiors and LogSumExp are compared with the specification's exact "
        "value within the bound it prints (a few units of 2^-52 resp. 2^-23 relative, derived in SliceExt.tla), in math/big",
        "internal/asm, internal/math32 and internal/cmplx64 are imported directly (the harness module path lies under "
        "gonum.org/v1/gonum/); kernels are documented by the loop in their doc comment",
        "floats/scalar is judged by specs/misc/ScalarFloat.tla and its binding harness/internal/misc (extra check X01), unchanged",
        "an isolated call that dies with SIGSEGV twice, alone in a fresh process, is counted as a violation of that call",
        "complex elements with special components: a complex product is the Go formula (ac - bd) + (ad + bc)i over the IEEE "
        "tables of SlicePrims.tla; at the positions the specification lists as open (formula NaN+NaNi with an infinite factor) "
        "every result that is not finite in both components is accepted; the sign of a zero component is compared only where a "
        "component is copied or combined with a real scalar",
    ]
    return ctx.finish(
        rule="one case = one gonum call on operands printed by the specification (one function, length, data "
             "variant, start offset 0..7, destination fresh or aliasing a source) whose result was compared with "
             "the specification's expected value; non-trivial = length > 0; cscalar / floats/scalar tables: one case = one point "
             "of a table (non-trivial = the documentation fixes the answer)",
        exhaustive=False)


def replay(ctx, path):
    os.makedirs(os.path.join(SPECS, "lib"), exist_ok=True)
    load_proposed(ctx)
    d = json.load(open(path))["data"]
    one = os.path.join(ctx.work, "one.ndjson")
    with open(one, "w") as fh:
        fh.write(json.dumps(d["failure"]["case"]) + "\n")
    # the failing build is recorded in the stage name of the failure message
    for tags in ("", "noasm", "safe"):
        binary = ctx.build(tags)
        if "iso" in d["args"]:
            rc, out, _ = sh([binary, "replay", d["area"], "-in", one, "-seed", str(ctx.seed)] + list(d["args"]), 600, env=dict(GOENV))
            if rc != 0 and is_fault(out, rc):
                ctx.violation(d["failure"]["sig"], "the isolated call killed the process with a memory fault [%s build]" % (tags or "default"), d)
                continue
        ctx.replay(binary, d["area"], one, d["args"], confirm=False, name="replay [%s]" % (tags or "default"))
    return ctx.finish()
