"""C08 - slice primitives equal their scalar definitions in every build configuration.

R1  TLC checks the specification's own lemmas: the aliasing lemma (SliceAlias.tla: the scalar
    loop executed element by element with dst aliasing a source equals the functional
    definition, for every content over a 4-value alphabet incl. -0 and +Inf), the storage-map
    lemma for strided vectors, the IEEE laws of the extended-integer tables (ASSUMEs) and the
    order-independence of the sums on the emitted data (OrderFree).
R2  spec->code: TLC enumerates function x length 0..70 x data variant (salted integer data plus
    injected NaN / +-Inf / -0 at swept positions, ordered PAIRS of specials at two swept positions for
    every reduction / norm / distance incl. the strided float64, float32 and complex forms, special scalars) from SlicePrims.tla and prints
    operands and expected results; the harness places the operands at every start offset 0..7
    past a 64-byte boundary (guard elements around them), fresh destination / destination
    aliasing a source, calls gonum (floats, BLAS level 1 float64 and float32 with increments
    +-1..5) and compares bit for bit (NaN by IsNaN, sign of zero by bits; Euclidean norms at
    exponents 2^-1040 .. 2^1010 against the exact value with the spec's rounding bound in
    big.Rat) - in the default (assembly), noasm and safe builds.
"""
import json
import os

from vlib import SPECS

G = lambda *a: "{" + ",".join('"%s"' % x for x in a) + "}"

# name, functions, (nmax, nvar) quick, (nmax, nvar) thorough
GROUPS = [
    ("elementwise", G("Add", "AddTo", "Sub", "SubTo", "Mul", "MulTo", "Div", "DivTo", "AddConst", "Scale",
                      "ScaleTo", "AddScaled", "AddScaledTo"), (70, 11), (70, 44), ""),
    ("reductions", G("CumSum", "CumProd", "Sum", "Prod", "Dot", "Norm1", "Dist1", "NormInf", "DistInf"), (70, 10), (70, 40), ""),
    ("norm2", G("Norm2", "Dist2", "Nrm2Inc"), (70, 5), (70, 20), ""),
    ("index", G("MaxIdx", "MinIdx", "NearestIdx", "Within", "Find", "Count"), (70, 10), (70, 40), ""),
    ("sort", G("Argsort", "ArgsortStable"), (40, 4), (70, 16), ""),
    ("span", G("Span", "SpanEnds", "SpanEndsFin", "NearestIdxForSpan"), (70, 11), (70, 44), ""),
    ("strided", G("Axpy", "DotInc", "ScalInc", "AsumInc"), (70, 10), (70, 30), ""),
    ("complex", G("CAdd", "CAddTo", "CSub", "CSubTo", "CMul", "CMulTo", "CMulConj", "CMulConjTo", "CDiv", "CDivTo",
                  "CAddConst", "CScale", "CScaleTo", "CScaleReal", "CScaleRealTo", "CAddScaled", "CAddScaledTo",
                  "CCumSum", "CCumProd", "CSum", "CProd", "CDot", "CReal", "CImag", "CComplex", "CMaxAbsIdx",
                  "CMinAbsIdx"), (70, 4), (70, 14), "CDivOK"),
    ("bool-reverse", G("EqualSame", "Reverse"), (70, 9), (70, 30), ""),
    ("spatial", G("R3Add", "R3Sub", "R3Scale", "R3Dot", "R3Cross", "R3Norm2", "R2Add", "R2Sub", "R2Scale", "R2Dot",
                  "R2Cross", "R2Norm2", "R3MatMulVec", "R3MatMulVecTrans", "R3MatAdd", "R3MatSub", "R3MatScale",
                  "R3MatMul", "R3MatDet", "R3MatOuter", "R3MatSkew", "R3MatT", "R3VecRow", "R3VecCol"), (20, 7), (70, 14), ""),
    # ordered pairs of special values {NaN,+Inf,-Inf,-0}^2 at two swept positions (16 kind pairs per
    # length; the position-class pair rotates with length/seed; thorough: all 16 x 21 per length <= 24)
    ("pairs", G("SumP", "DotP", "Norm1P", "NormInfP", "Norm2P", "Dist1P", "DistInfP", "Dist2P", "CumSumP",
                "MaxIdxP", "MinIdxP"), (40, 16), (70, 64), ""),
    ("pairs-strided", G("DotIncP", "AsumIncP", "Nrm2IncP", "CNorm2P", "CNrm2P", "CAsumP"), (40, 16), (70, 64), ""),
    ("complex-strided", G("CNorm2", "CAxpy", "CDotu", "CDotc", "CScal", "CDscal", "CAsum", "CNrm2"), (70, 5), (70, 20), ""),
]
PAIRS_ALL = G("SumP", "DotP", "Norm1P", "NormInfP", "Norm2P", "Dist1P", "DistInfP", "Dist2P", "CumSumP", "MaxIdxP", "MinIdxP")
PAIRS_STRIDED_ALL = G("DotIncP", "AsumIncP", "Nrm2IncP", "CNorm2P", "CNrm2P", "CAsumP")
# unit-stride kernels at long lengths (thorough): formula-valued integer data only
LONGF = G("AddTo", "AddScaled", "ScaleTo", "Sum", "Dot", "CumSum", "Norm1", "Norm2", "MaxIdx", "CAddScaled", "CDot")
LONGLIN = G("AddTo", "AddScaled", "ScaleTo", "Sum", "Dot", "Norm1", "Norm2")   # linear-time definitions only
LONG = [("long-257", 257, LONGF), ("long-1000", 1000, LONGF), ("long-4099", 4099, LONGF), ("long-10000", 10000, LONGLIN)]


def run(ctx):
    os.makedirs(os.path.join(SPECS, "lib"), exist_ok=True)
    thorough = ctx.tier == "thorough"
    builds = [("default", ""), ("noasm", "noasm"), ("safe", "safe")]
    bins = {n: ctx.build(t) for n, t in builds}
    seed = ctx.seed % 1000

    # ---- R1 ---------------------------------------------------------------
    n2, n1 = (4, 6) if thorough else (3, 5)
    ctx.tlc("slices/SliceAlias.tla", "slices/SliceAlias.cfg", subst=dict(N2=n2, N1=n1), workers=4,
            name="R1 aliasing lemma (dst aliases a source, lengths<=%d/%d), VecIdx lemma, IEEE table laws" % (n2, n1))
    ctx.tlc("slices/SlicePrims.tla", "slices/SlicePrims_model.cfg", workers=4,
            subst=dict(NMAX=40 if thorough else 24, NVAR=16 if thorough else 8, SEED=seed),
            name="R1 sums of the emitted data are independent of accumulation order")

    # ---- R2 ---------------------------------------------------------------
    def replay_all(cases, label):
        for bn, _ in builds:
            ctx.replay(bins[bn], "slices", cases, name="R2 replay %s [%s]" % (label, bn))

    for name, fns, q, t, extra in GROUPS:
        nmax, nvar = t if thorough else q
        cases = ctx.gen("slices/SlicePrims.tla", "slices/SlicePrims_gen.cfg", name="R2 gen " + name,
                        subst=dict(FNS=fns, NMIN=0, NMAX=nmax, NVAR=nvar, SEED=seed, EXTRA=extra))
        replay_all(cases, name)
    if thorough:
        for name, fns in (("pairs-all", PAIRS_ALL), ("pairs-strided-all", PAIRS_STRIDED_ALL)):
            cases = ctx.gen("slices/SlicePrims.tla", "slices/SlicePrims_gen.cfg", name="R2 gen " + name,
                            subst=dict(FNS=fns, NMIN=2, NMAX=24, NVAR=336, SEED=seed, EXTRA=""), timeout=1500)
            replay_all(cases, name)
        for name, n, fns in LONG:
            cases = ctx.gen("slices/SlicePrims.tla", "slices/SlicePrims_gen.cfg", name="R2 gen " + name,
                            subst=dict(FNS=fns, NMIN=n, NMAX=n, NVAR=2, SEED=seed, EXTRA=""), timeout=1500)
            replay_all(cases, name)

    ctx.assumptions += [
        "TLC/SANY and the CommunityModules Json module are trusted",
        "the harness's operand placement (offset past a 64-byte boundary, guard elements), the decoding of the "
        "spec's value codes (NaN, +-Inf, -0, m*2^e by math.Ldexp) and the bitwise / big.Rat comparison are trusted",
        "internal/asm kernels are reached through their exported callers (floats, blas/gonum level 1); kernels "
        "with no exported unit-stride caller are not exercised directly",
        "the predicate passed to Find/Count is v > 0 on both sides",
    ]
    return ctx.finish(
        rule="one case = one gonum call on operands printed by the specification (one function, length, data "
             "variant, start offset 0..7, destination fresh or aliasing a source) whose result was compared with "
             "the specification's expected value; non-trivial = length > 0",
        exhaustive=False)


def replay(ctx, path):
    os.makedirs(os.path.join(SPECS, "lib"), exist_ok=True)
    d = json.load(open(path))["data"]
    one = os.path.join(ctx.work, "one.ndjson")
    with open(one, "w") as fh:
        fh.write(json.dumps(d["failure"]["case"]) + "\n")
    # the failing build is recorded in the stage name of the failure message
    rc = 0
    for tags in ("", "noasm", "safe"):
        ctx.replay(ctx.build(tags), d["area"], one, d["args"], confirm=False, name="replay [%s]" % (tags or "default"))
    return ctx.finish()
