"""C05 - mat never mutates inputs and never returns a result corrupted by aliasing.

MatAlias.tla: windows of one backing array as index SETS (abstract layer: relation and demanded
outcome) plus a literal transcription of mat/shadow.go's detection arithmetic (TLC proves it exact
for equal strides/increments, conservative otherwise).  Every ordered pair of windows in the bounded
geometry is printed by TLC and replayed: both views are built on one real slice and every
applicable receiver-taking method of Dense / VecDense / SymDense / TriDense / CDense is called.
Family "matvec": a Dense window and a column / row view (VecDense) of the same parent, either one the
receiver (Outer, RankOne, Mul, Add with a vector operand; MulVec into a view).
MatAliasOps.tla: value-carrying families.  "pow": Dense.Pow / Scale / Apply / Inverse of one n x n window of a
junk-filled parent into every receiver relation (zero value, own storage, every n x n window of the parent,
the argument itself, the argument itself with the argument passed as its transpose), exponents 0..6 (12);
"triprod": TriDense.MulTri with the factors in every Triangular representation (windows, the receiver itself,
TTri of the other kind, DiagDense, DiagView of a window, the receiver's own DiagView, TriBandDense).  The
specification prints the exact integer result and the whole backing array demanded after the call.
"""
import json
import os


def run(ctx):
    th = ctx.tier == "thorough"
    bins = {"default": ctx.build(""), "safe": ctx.build("safe")}
    ns = 4
    fams = []
    # (name, subst)
    vec_len = 24 if th else 14
    fams.append(("vec n<=5 inc<=4 backing %d" % vec_len, dict(FAMILY="vec", R1=5, C1=4, R2=0, C2=0, BACKLEN=vec_len)))
    if th:
        fams.append(("mat 6x6", dict(FAMILY="mat", R1=6, C1=6, R2=0, C2=0, BACKLEN=0)))
        fams.append(("matdiff 6x6|4x9", dict(FAMILY="matdiff", R1=6, C1=6, R2=4, C2=9, BACKLEN=0)))
        fams.append(("matdiff 6x6|9x4", dict(FAMILY="matdiff", R1=6, C1=6, R2=9, C2=4, BACKLEN=0)))
    else:
        fams.append(("mat 5x5", dict(FAMILY="mat", R1=5, C1=5, R2=0, C2=0, BACKLEN=0)))
        fams.append(("matdiff 4x6|6x4", dict(FAMILY="matdiff", R1=4, C1=6, R2=6, C2=4, BACKLEN=0)))
    mv = 6 if th else 5
    fams.append(("matvec %dx%d (window x column/row view)" % (mv, mv), dict(FAMILY="matvec", R1=mv, C1=mv, R2=0, C2=0, BACKLEN=0)))
    fams.append(("matvec 3x7 (window x column/row view)", dict(FAMILY="matvec", R1=3, C1=7, R2=0, C2=0, BACKLEN=0)))
    fams.append(("sym/tri diagonal blocks %d" % (7 if th else 6), dict(FAMILY="sym", R1=7 if th else 6, C1=7 if th else 6, R2=0, C2=0, BACKLEN=0)))
    # seed-chosen extra geometry (sampling beyond the fixed bound)
    r = 3 + ctx.seed % 4
    c = 7 + (ctx.seed // 4) % 3
    fams.append(("mat %dx%d (seed)" % (r, c), dict(FAMILY="mat", R1=r, C1=c, R2=0, C2=0, BACKLEN=0)))

    def one(name, sub, shard):
        s = dict(sub, SHARD=shard, NSHARDS=ns, EMIT="Emit")
        cases = ctx.gen("mat/MatAlias.tla", "mat/MatAlias.cfg", subst=s, name="R1+R2 gen %s shard %d/%d" % (name, shard, ns))
        for bn, b in bins.items():
            ctx.replay(b, "matalias", cases, [], name="R2 replay %s shard %d [%s]" % (name, shard, bn))

    # value-carrying families (MatAliasOps.tla): exact results and whole backing arrays from the specification
    maxn, maxexp = (4, 12) if th else (3, 6)

    def ops(fam, shard):
        s = dict(FAMILY=fam, SHARD=shard, NSHARDS=ns, MAXN=maxn, MAXEXP=maxexp, SEED=ctx.seed, EMIT="EmitOps")
        nm = "%s n<=%d%s" % (fam, maxn, " exponents 0..%d" % maxexp if fam == "pow" else "")
        cases = ctx.gen("mat/MatAliasOps.tla", "mat/MatAliasOps.cfg", subst=s, name="R1+R2 gen %s shard %d/%d" % (nm, shard, ns))
        for bn, b in bins.items():
            ctx.replay(b, "matalias", cases, [], name="R2 replay %s shard %d [%s]" % (nm, shard, bn))

    thunks = [lambda fam=fam, sh=sh: ops(fam, sh) for fam in ("pow", "triprod") for sh in range(ns)]
    for name, sub in fams:
        for sh in range(ns):
            thunks.append(lambda name=name, sub=sub, sh=sh: one(name, sub, sh))
    ctx.parallel(thunks, width=8)

    ctx.assumptions += [
        "TLC/SANY/Json trusted; the harness's view builders (Slice / ColView / SliceVec) and bit comparison trusted",
        "'the unaliased result' is obtained by running the same gonum method on private copies (the property's own "
        "wording); what must happen for a window pair is decided by the specification",
        "only operands that expose Raw* storage take part as the aliased operand (mat/doc.go: overlap with "
        "operands exposing only Matrix is not detected)",
        "families pow / triprod: the demanded values are exact integer results computed by the specification "
        "(entries small enough that every power / product is exact in float64); -0 and +0 are identified",
    ]
    return ctx.finish(
        rule="one case = one method call with the receiver on window w1 and an operand on window w2 of one real "
             "backing slice (or the receiver itself / its transpose); non-trivial = the element sets intersect "
             "(partial, identical, self) so aliasing is actually present",
        exhaustive=True)


def replay(ctx, path):
    d = json.load(open(path))["data"]
    one = os.path.join(ctx.work, "one.ndjson")
    with open(one, "w") as fh:
        fh.write(json.dumps(d["failure"]["case"]) + "\n")
    tags = "safe" if "[safe]" in json.dumps(d) else ""
    for t in ("", "safe"):
        ctx.replay(ctx.build(t), d["area"], one, d["args"], confirm=False)
    return ctx.finish()
