"""C13 - shortest-path routines return true optimal weights and real paths.

R1  TLC checks the theorems of specs/path/ShortestPath.tla on every graph of the bound: the Bellman
    fixed-point characterisation equals the definition by enumeration of simple paths and cycles,
    triangle inequality, a shortest simple path exists iff the weight is finite, shortest paths are
    walks of the stated weight, Johnson's re-weighting lemma.
R2  spec->code: TLC prints, for every graph of the bound, the complete expected answer of every
    query (true weights incl. +Inf/-Inf, negative-cycle flags, sets of shortest simple paths, all
    simple paths with weights, Yen counts); the harness builds the graph in the real containers and
    compares every routine of graph/path with those answers.
R3  code->spec: seeded random graphs up to 60 nodes are run through the real routines, the answers
    are logged and TLC judges every logged weight and path with the fixed-point definition
    (ShortestPathTrace.tla).  D* Lite: random worlds, the documented loop Step / change costs /
    UpdateWorld, Path() and Step() logged after every action and judged against the current world.

Priority queues (aStarQueue, Dijkstra's priorityQueue, Yen's candidate heap) are unexported; they are
bound through the routines: R3 "wide" records AStar(s, t, g, h).To(t) for EVERY ordered pair of
dense / sparse / grid-with-diagonals / planted-potential graphs of 10..40 nodes with weights 1..20,
for the null heuristic and heuristic tables the specification certifies (consistent, zero at the
target) before use, in several containers and successor orders, plus the Dijkstra family and Yen.

The returned trees: Shortest.From / ShortestAlts.From of every tree (every routine, every source incl.
the absent id) against the spec's src table; Between / AllBetween / AllBetweenFunc(a, a) on the absent
id a against the spec's set of legal answers (the trivial path handed out there is the package's own
node type: its ID() must be a).

D* Lite MoveTo ("moves to n in the world graph"): action MoveTo of DStarLite.tla (n lies 0..2 optimal
edges ahead, here' = n); table scripts and state-graph behaviours in which the robot moves by MoveTo
along its own Path() (every epoch MoveTo* Step*) or is moved to any node with the update following at
once; recorded histories with "dmove" events.  MoveTo after a Step inside one epoch, Path() right after
a MoveTo off the plan, and a planner created at its goal that is then moved away are separate stages
with their own signatures (MOVETO_FINDING_STAGES).

D* Lite with zero weights: family "gate" (zero-weight edges into / out of the goal, free two-way
gates = zero-weight cycles through the goal, costs next to the goal raised and dropped, the edge in
use raised or removed (+Inf), Step interleaved) in both directions; a call that does not return is
a violation with the signature ...:hang.  ZERO_INTERIOR_STAGE adds zero-weight edges between other
nodes (no zero-weight cycle off the goal): signatures path:DStarLite:zero-interior:* and
path:dstar-trace-rejected:zero-interior.
"""
import json
import os
import re
import shutil

SPEC = "path/ShortestPath.tla"
CFG = "path/ShortestPath.cfg"
TSPEC = "path/ShortestPathTrace.tla"
TCFG = "path/ShortestPathTrace.cfg"
YSPEC = "path/YenSearch.tla"
YCFG = "path/YenSearch.cfg"
DSPEC = "path/DStarLite.tla"
DCFG = "path/DStarLite.cfg"

IDS = "[[1,2,3,4,5,6],[-7,1000000007,0,42,3,9223372036854775807]]"
IDS10 = "[[1,2,3,4,5,6,7,8,9,10],[-7,1000000007,0,42,3,9223372036854775807,5,-1,77,12]]"

# D* Lite on worlds with zero-weight edges between nodes other than the goal (every zero-weight cycle
# still passes through the goal).  dynamic.DStarLite documents only "panics on a negative weight";
# the stage is a separate one with its own signatures so that its findings can be told apart
# (VERIF_C13_ZERO_INTERIOR=0 switches it off, e.g. to see the exit status of everything else).
ZERO_INTERIOR_STAGE = os.environ.get("VERIF_C13_ZERO_INTERIOR", "1") != "0"

# dynamic.DStarLite.MoveTo ("moves to n in the world graph").  The claimed domain (signatures as for
# Step): between two UpdateWorld calls the robot moves by MoveTo* Step* - along its own Path() or to any
# node when the update follows at once.  Two further domains are allowed by the documentation but are
# not exact on the unchanged tree; they are separate stages with signatures of their own
# (VERIF_C13_MOVETO_FINDINGS=0 switches them off, e.g. to see the exit status of everything else):
#   path:DStarLite:moveto-after-step:*   a MoveTo follows a Step with no UpdateWorld in between
#   path:DStarLite:moveto-then-path:*    MoveTo to a node off the plan, then Path() at once
#   path:DStarLite:moveto-from-goal:*    planner created with start = goal, MoveTo away, UpdateWorld, Path()
MOVETO_FINDING_STAGES = os.environ.get("VERIF_C13_MOVETO_FINDINGS", "1") != "0"


def subst(minn, maxn, directed, wcodes, woff, mode="all", seed=1, nsamples=1, shard=0, nshards=1,
          emit=True, invs="EmitCase"):
    return dict(MINN=minn, MAXN=maxn, DIRECTED="TRUE" if directed else "FALSE", WCODES=wcodes, WOFF=woff,
                MODE=mode, SEED=seed, NSAMPLES=nsamples, SHARD=shard, NSHARDS=nshards,
                EMIT="TRUE" if emit else "FALSE", INVS=invs)


def run(ctx):
    thorough = ctx.tier == "thorough"
    hb = ctx.build("")
    # developer aid: VERIF_C13_ONLY=small,dtables,... runs only the named groups of stages
    only = [x for x in os.environ.get("VERIF_C13_ONLY", "").split(",") if x]

    def want(group):
        return not only or group in only

    # ---- R1: theorems of the specification --------------------------------------------------
    if want("r1"):
        ctx.tlc(SPEC, CFG, name="R1 theorems: all digraphs <=3 nodes, weights {-1,0,1,2}", workers=2,
                subst=subst(0, 3, True, "{0,1,2,3}", 1, emit=False, invs="Theorems"))
    if thorough and want("r1"):
        ctx.tlc(SPEC, CFG, name="R1 theorems: all undirected graphs <=4 nodes, weights {-1,0,1,2}", workers=2,
                subst=subst(0, 4, False, "{0,1,2,3}", 1, emit=False, invs="Theorems"))
        ctx.tlc(SPEC, CFG, name="R1 theorems: 4000 sampled digraphs on 4 nodes, weights {-1,0,1,2}", workers=2,
                subst=subst(4, 4, True, "{0,1,2,3}", 1, mode="sample", seed=ctx.seed, nsamples=4000,
                            emit=False, invs="Theorems"))

    # ---- R2: generated graphs with complete expected answers, replayed -----------------------
    plans = [
        # name, subst, kinds, views
        ("all digraphs <=3 nodes, weights {-2,0,1,3}", subst(0, 3, True, "{0,2,3,5}", 2),
         "weighted,matrix", "graph,traverse"),
        ("all undirected graphs <=4 nodes, weights {-2,0,1}", subst(0, 4, False, "{0,2,3}", 2),
         "weighted,matrix", "graph,traverse"),
        ("all unit-weight digraphs <=4 nodes (UniformCost)", subst(0, 4, True, "{1}", 0),
         "uniform", "graph,traverse"),
        ("sampled digraphs on 4 nodes, weights {-2,0,1,3}, seed %d" % ctx.seed,
         subst(4, 4, True, "{0,2,3,5}", 2, mode="sample", seed=ctx.seed, nsamples=12000 if thorough else 1500),
         "weighted,matrix", "graph,traverse"),
        ("sampled digraphs on 4 nodes, weights {0,1,2} (ties, zero cycles, Yen), seed %d" % ctx.seed,
         subst(4, 4, True, "{0,1,2}", 0, mode="sample", seed=ctx.seed, nsamples=12000 if thorough else 1500),
         "weighted", "graph"),
    ]
    if thorough:
        plans += [
            ("all undirected graphs <=4 nodes, weights {-2,0,1,3}", subst(0, 4, False, "{0,2,3,5}", 2),
             "weighted,matrix", "graph,traverse"),
            ("sampled digraphs on 5 nodes, weights {-1,0,1,2}, seed %d" % ctx.seed,
             subst(5, 5, True, "{0,1,2,3}", 1, mode="sample", seed=ctx.seed, nsamples=2000),
             "weighted,matrix", "graph,traverse"),
            ("sampled undirected graphs on 5 nodes, weights {0,1,2}, seed %d" % ctx.seed,
             subst(5, 5, False, "{0,1,2}", 0, mode="sample", seed=ctx.seed, nsamples=3000),
             "weighted", "graph"),
            ("all digraphs on 4 nodes, weights {0,1} (shard %d of 64 by seed)" % (ctx.seed % 64),
             subst(4, 4, True, "{0,1}", 0, shard=ctx.seed % 64, nshards=64), "weighted", "graph"),
        ]
    for name, sb, kinds, views in (plans if want("small") else []):
        cases = ctx.gen(SPEC, CFG, subst=sb, name="R2 gen " + name)
        ctx.replay(hb, "path-small", cases, ["kinds=" + kinds, "views=" + views, "ids=" + IDS],
                   name="R2 replay " + name)

    # ---- R2 tie-rich family: lists of alternatives in the all-pairs routines -----------------------
    # layered graphs on 7..9 nodes in which a source has 2..6 equally good routes to two targets sharing a
    # hub (ShortestPath.tla, Mode = "ties": the whole parameter space, 720 graphs); the spec prints the SET
    # of shortest paths of every pair; dense matrices in four node orders printed by the spec and map-based
    # graphs in two id bindings; AllBetween / AllBetweenFunc / AllTo must equal the set, every Between / To
    # path must be a member, weights exact.  Signatures path:ties:<routine>:<what>.
    if want("ties"):
        cases = ctx.gen(SPEC, CFG, subst=subst(0, 0, True, "{1,2,5}", 0, mode="ties"),
                        name="R2 gen tie-rich layered family (source -> 2..3 middles -> hub -> 2 targets, 1..2 side routes of weight "
                             "absent / tied / heavier, tied middle->target shortcuts), 7..9 nodes, weights {1,2,5}")
        ctx.replay(hb, "path-small", cases,
                   ["kinds=weighted,matrix", "views=" + ("graph,traverse" if thorough else "graph"), "ids=" + IDS10, "tag=ties:",
                    "reps=%d" % (25 if thorough else 8)],
                   name="R2 replay tie-rich layered family (all-paths sets, 4 node orders in dense matrices, 2 id bindings in map graphs)")

    # ---- R3: random graphs to 60 nodes through the real routines, judged by TLC ---------------
    ngraphs = 120 if thorough else 28
    groups = [
        ("no-zero-cycles", "sparse-pos,dense-ties,disconnected,neg-dag,neg-cycle-far,undirected-pos,neg-potential"),
        ("zero-cycles", "zero-cycles,undirected-zero,neg-mixed"),
    ]
    for gname, fams in (groups if want("rand") else []):
        tr = os.path.join(ctx.work, "ptrace-%s.ndjson" % gname)
        summ = ctx.record(hb, "path-rand", tr, ["graphs=%d" % ngraphs, "maxn=60", "fams=" + fams],
                          name="R3 record %s" % gname)
        ok, st = ctx.validate(TSPEC, TCFG, tr, subst=dict(KNOWNCUT="FALSE"), name="R3 validate %s" % gname)
        if ok:
            ctx.traces += summ.get("traces", 0)
            continue
        keep = os.path.join(ctx.work, "..", "..", "replays", "C13")
        os.makedirs(keep, exist_ok=True)
        dst = os.path.abspath(os.path.join(keep, "ptrace-%s-seed%d.ndjson" % (gname, ctx.seed)))
        shutil.copy(tr, dst)
        # classify: is the zero-weight-cycle cut of ShortestAlts.To / AllShortest.Between the only reason?
        ok2, st2 = ctx.validate(TSPEC, TCFG, tr, subst=dict(KNOWNCUT="TRUE"),
                                name="R3 classify %s (paths of To/Between on zero-cycle graphs only start/end-checked)" % gname)
        if ok2:
            ctx.notes.append("R3 %s: the strict pass rejected (%s); the classifying pass accepted every other clause of "
                             "the %d-graph trace" % (gname, st.get("detail", "")[:160], summ.get("traces", 0)))
            ctx.violation("path:trace:zero-cycle-cut-nonwalk", st.get("detail", "")[:600],
                          {"trace": dst, "spec": TSPEC, "cfg": dict(KNOWNCUT="FALSE")})
        else:
            ctx.violation("path:trace-rejected:%s" % gname, st2.get("detail", "")[:600],
                          {"trace": dst, "spec": TSPEC, "cfg": dict(KNOWNCUT="TRUE")})

    def wide_stage():
        # ---- R3 "wide": large open queues, many decrease-key operations ------------------------------
        # every ordered pair (s, t) x heuristics (null, nil, spec-certified tables as function and as the
        # graph's HeuristicCost) x containers / successor orders, 10..40 nodes, weights 1..20
        tr = os.path.join(ctx.work, "ptrace-wide.ndjson")
        summ = ctx.record(hb, "path-astar", tr, ["graphs=%d" % (80 if thorough else 24), "minn=10", "maxn=40", "views=3"],
                          name="R3 record wide (A* all pairs, Dijkstra family, Yen; 10..40 nodes, weights 1..20)")
        ok, st = ctx.validate(TSPEC, TCFG, tr, subst=dict(KNOWNCUT="FALSE"), name="R3 validate wide")
        if ok:
            ctx.traces += summ.get("traces", 0)
            # Yen completeness on the same recorded graphs: TLC enumerates every simple path within the limit the
            # answer commits to (YenSearch.tla); one that was not returned is a violation
            yok, yst = ctx.validate(YSPEC, YCFG, tr, subst=dict(UNBOUNDED="FALSE", SKIP=""), workers=2,
                                    accept_re=r"YEN-SEARCH-INSTANCES (\d+)",
                                    name="R3 Yen omits no cheaper path: exhaustive enumeration of simple paths within the limit (wide)")
            if yok:
                yst["yen_answers_proved_complete"] = yst.get("events_consumed", 0)
            else:
                detail = yst.get("detail", "")
                inst = re.findall(r"/\\ inst = (\d+)", detail)
                pth = re.findall(r"/\\ path = <<([\d,\s]*)>>", detail)
                keep = os.path.join(ctx.work, "..", "..", "replays", "C13")
                os.makedirs(keep, exist_ok=True)
                dst = os.path.abspath(os.path.join(keep, "ptrace-wide-yen-seed%d.ndjson" % ctx.seed))
                shutil.copy(tr, dst)
                what = "event %s of the trace: the simple path <<%s>> is within the limit of the answer but was not returned" % (
                    inst[-1] if inst else "?", pth[-1].replace("\n", " ") if pth else "?")
                if inst:
                    try:
                        yev = json.loads(open(tr).read().split("\n")[int(inst[-1]) - 1])
                        what += " (YenKShortestPaths k=%s cost=%s s=%s t=%s returned %s)" % (
                            yev["k"], "+Inf" if yev["c"] == 99 else yev["c"], yev["s"], yev["t"], yev["ps"])
                    except (ValueError, IndexError, KeyError):
                        pass
                ctx.violation("path:YenKShortestPaths:missing-cheaper-path", what + " | " + detail[-300:],
                              {"trace": dst, "spec": YSPEC, "cfgfile": YCFG, "cfg": dict(UNBOUNDED="FALSE", SKIP=""),
                               "accept_re": r"YEN-SEARCH-INSTANCES (\d+)"})
        else:
            keep = os.path.join(ctx.work, "..", "..", "replays", "C13")
            os.makedirs(keep, exist_ok=True)
            dst = os.path.abspath(os.path.join(keep, "ptrace-wide-seed%d.ndjson" % ctx.seed))
            shutil.copy(tr, dst)
            ctx.violation("path:trace-rejected:wide", st.get("detail", "")[:600],
                          {"trace": dst, "spec": TSPEC, "cfg": dict(KNOWNCUT="FALSE")})

    if want("wide"):
        wide_stage()

    # ---- D* Lite ----------------------------------------------------------------------------
    # spec->code, tables role: for pseudo-random worlds TLC prints the distance / optimal-edge tables of
    # the world and of EVERY single and double edge-cost change plus the heuristic it provides; the
    # harness runs plan -> Step k (0..3) -> UpdateWorld(change) -> Path -> Steps to the goal for every
    # (start, goal, k, change) and judges by table look-up.
    def dsub(family, n, gr, gc, heur, mode, seed, nsamples, rounds=0, emit=True,
             invs="TypeOK HeuristicOK OptProgress EmitTables", moves="step"):
        return dict(FAMILY=family, N=n, GR=gr, GC=gc, DELTA=2, HEUR=heur, MODE=mode, SEED=seed, NSAMPLES=nsamples,
                    ROUNDS=rounds, MOVES=moves, EMIT="TRUE" if emit else "FALSE", INVS=invs)

    if thorough and want("dr1"):
        ctx.tlc(DSPEC, DCFG, name="R1 DStarLite: heuristic consistent, optimal edges progress, for every single/double "
                "change of 40 4-node worlds", workers=2,
                subst=dsub("small", 4, 1, 1, "base", "tables", ctx.seed, 45, emit=False,
                           invs="TypeOK HeuristicOK OptProgress AllChangesOK"))
        ctx.tlc(DSPEC, DCFG, name="R1 DStarLite: the same for 20 2x3 grids", workers=2,
                subst=dsub("grid", 0, 2, 3, "manhattan", "tables", ctx.seed, 20, emit=False,
                           invs="TypeOK HeuristicOK OptProgress AllChangesOK"))
    # quick: the table worlds are fixed (exhaustive over start/goal/steps/changes, cached); thorough: by seed
    tseed = ctx.seed if thorough else 1
    # (name, cfg, worlds used by the MoveTo scripts: 0 = all)
    tplans = [("2x3 grids, base-world-distance heuristic", dsub("grid", 0, 2, 3, "base", "tables", tseed, 100 if thorough else 20), 40 if thorough else 10),
              ("2x4 grids, Manhattan x min-cost heuristic", dsub("grid", 0, 2, 4, "manhattan", "tables", tseed, 20 if thorough else 4), 8 if thorough else 2)]
    if thorough:
        tplans += [("3x3 grids, base-world-distance heuristic", dsub("grid", 0, 3, 3, "base", "tables", tseed, 12), 3),
                   ("4-node worlds, base-world-distance heuristic", dsub("small", 4, 1, 1, "base", "tables", tseed, 150), 60),
                   ("5-node worlds, base-world-distance heuristic", dsub("small", 5, 1, 1, "base", "tables", tseed, 20), 10)]
    for name, sb, mw in (tplans if want("dtables") else []):
        cases = ctx.gen(DSPEC, DCFG, subst=sb, name="R2 gen D* Lite tables: " + name)
        ctx.replay(hb, "path-dstar-tables", cases, ["heur=spec"], name="R2 replay D* Lite scripts: " + name)
        # MoveTo: the same tables, scripts in which the robot moves by MoveTo (along its Path(), 0..2 edges
        # ahead, or to any node with the update following at once), every epoch MoveTo* Step*
        ctx.replay(hb, "path-dstar-tables", cases, ["heur=spec", "moves=A", "worlds=%d" % mw, "limitms=5000"],
                   name="R2 replay D* Lite scripts with MoveTo (MoveTo* Step* between updates): " + name)
        if MOVETO_FINDING_STAGES and name.startswith("2x3"):
            ctx.replay(hb, "path-dstar-tables", cases, ["heur=spec", "moves=B", "worlds=%d" % mw, "limitms=5000"],
                       name="R2 replay D* Lite scripts, MoveTo after Step inside one epoch: " + name)
            ctx.replay(hb, "path-dstar-tables", cases, ["heur=spec", "moves=C", "worlds=3", "limitms=3000"],
                       name="R2 replay D* Lite scripts, MoveTo to any node then Path() at once: " + name)
            ctx.replay(hb, "path-dstar-tables", cases, ["heur=spec", "moves=D", "worlds=3", "limitms=3000"],
                       name="R2 replay D* Lite scripts, planner created at its goal, MoveTo away, UpdateWorld: " + name)

    # zero-weight edges at the goal (family "gate"): theorems of the family, then every (start, k steps,
    # single / double change) towards the designated goal, with the spec's heuristic and with the null one
    ginv = "TypeOK HeuristicOK GateClassOK OptReach"
    if thorough and want("dr1"):
        ctx.tlc(DSPEC, DCFG, name="R1 DStarLite gate family: class, heuristic consistent, optimal edges reach the goal, for every "
                "single/double change of 60 4-node worlds", workers=2,
                subst=dsub("gate", 4, 1, 1, "base", "tables", ctx.seed, 60, emit=False, invs=ginv + " AllChangesReach"))
    gplans = [("4-node worlds with free gates at the goal", dsub("gate", 4, 1, 1, "base", "tables", tseed, 300 if thorough else 60,
                                                                 invs=ginv + " EmitTables")),
              ("5-node worlds with free gates at the goal", dsub("gate", 5, 1, 1, "base", "tables", tseed, 80 if thorough else 20,
                                                                 invs=ginv + " EmitTables"))]
    for name, sb in (gplans if want("dgate") else []):
        cases = ctx.gen(DSPEC, DCFG, subst=sb, name="R2 gen D* Lite tables: " + name)
        for heur in ("spec", "null"):
            ctx.replay(hb, "path-dstar-tables", cases, ["heur=" + heur, "limitms=3000"],
                       name="R2 replay D* Lite scripts (%s heuristic): %s" % (heur, name))
            ctx.replay(hb, "path-dstar-tables", cases, ["heur=" + heur, "moves=A", "limitms=3000"],
                       name="R2 replay D* Lite scripts with MoveTo (%s heuristic): %s" % (heur, name))

    # spec->code, machine role: TLC explores every behaviour of the world/robot state machine with
    # deliberate updates (raise an edge on the optimal plan, lower one off the plan); the planner's run
    # must be a path of the printed state graph.
    mplans = [("2x5 grids, base-world-distance heuristic", dsub("grid", 0, 2, 5, "base", "machine", ctx.seed,
                                                             800 if thorough else 60, rounds=4, invs="TypeOK HeuristicOK OptProgress"))]
    if thorough:
        mplans += [("3x3 grids, Manhattan x min-cost heuristic", dsub("grid", 0, 3, 3, "manhattan", "machine", ctx.seed, 400,
                                                                  rounds=3, invs="TypeOK HeuristicOK OptProgress")),
                   ("4x4 grids, base-world-distance heuristic", dsub("grid", 0, 4, 4, "base", "machine", ctx.seed, 150,
                                                                 rounds=5, invs="TypeOK HeuristicOK OptProgress"))]
    mplans = [(name, sb, []) for name, sb in mplans]
    # the state machine with the action MoveTo: every epoch MoveTo* Step* ("move"); a MoveTo may follow a
    # Step ("mixed", a stage with its own signature)
    minv = "TypeOK HeuristicOK OptProgress AheadOK"
    mplans.append(("2x5 grids, base-world-distance heuristic, MoveTo* Step* between updates",
                   dsub("grid", 0, 2, 5, "base", "machine", ctx.seed, 800 if thorough else 60, rounds=4, invs=minv, moves="move"), []))
    if thorough:
        mplans.append(("3x3 grids, Manhattan x min-cost heuristic, MoveTo* Step* between updates",
                       dsub("grid", 0, 3, 3, "manhattan", "machine", ctx.seed, 400, rounds=3, invs=minv, moves="move"), []))
    if MOVETO_FINDING_STAGES:
        mplans.append(("2x5 grids, base-world-distance heuristic, Step and MoveTo in any order",
                       dsub("grid", 0, 2, 5, "base", "machine", ctx.seed, 800 if thorough else 60, rounds=4, invs=minv, moves="mixed"),
                       ["dom=moveto-after-step:"]))
    for name, sb, margs in (mplans if want("dmachine") else []):
        cases = ctx.gen(DSPEC, DCFG, subst=sb, name="R2 gen D* Lite state graph: " + name)
        ctx.replay(hb, "path-dstar-machine", cases, ["heur=spec"] + margs, name="R2 replay D* Lite behaviours: " + name)

    # code->spec: recorded histories judged by TLC (ShortestPathTrace.tla): random worlds with the null
    # heuristic, and deliberate histories on grids with heuristics whose tables TLC validates
    drecs = [("random worlds, null heuristic", "path-dstar",
              ["worlds=%d" % (3000 if thorough else 200), "rounds=10", "maxn=10"], "dstar")]
    drecs.append(("zero-weight gates at the goal, removals, null heuristic", "path-dstar",
                  ["worlds=%d" % (6000 if thorough else 600), "rounds=10", "maxn=10", "zero=gate"], "zero-gate"))
    if ZERO_INTERIOR_STAGE:
        drecs.append(("zero-weight edges anywhere, no zero-weight cycle off the goal, null heuristic", "path-dstar",
                      ["worlds=%d" % (600 if thorough else 100), "rounds=10", "maxn=10", "zero=interior"], "zero-interior"))
    for part in range(2 if thorough else 1):
        drecs.append(("deliberate grid histories, spec-validated heuristics (part %d)" % part, "path-dstar-grid",
                      ["hist=%d" % (6000 if thorough else 1000), "rounds=4", "part=%d" % part], "dstar-grid%d" % part))
    for name, area, rargs, tag in (drecs if want("drec") else []):
        tr = os.path.join(ctx.work, tag + ".ndjson")
        summ = ctx.record(hb, area, tr, rargs, name="R3 record D* Lite: " + name)
        ok, st = ctx.validate(TSPEC, TCFG, tr, subst=dict(KNOWNCUT="FALSE"), name="R3 validate D* Lite: " + name)
        if ok:
            ctx.traces += summ.get("traces", 0)
        else:
            keep = os.path.join(ctx.work, "..", "..", "replays", "C13")
            os.makedirs(keep, exist_ok=True)
            dst = os.path.abspath(os.path.join(keep, "%s-seed%d.ndjson" % (tag, ctx.seed)))
            shutil.copy(tr, dst)
            ctx.violation("path:dstar-trace-rejected" + (":" + tag if tag.startswith("zero") else ""), st.get("detail", "")[:600],
                          {"trace": dst, "spec": TSPEC, "cfg": dict(KNOWNCUT="FALSE")})

    ctx.assumptions += [
        "TLC/SANY and the CommunityModules Json module are trusted",
        "the harness's graph builder, model-id<->real-id binding and table look-ups are trusted "
        "(it contains no shortest-path computation)",
        "weights are small integers, so every float64 sum formed by the routines is exact",
    ]
    return ctx.finish(
        rule="R2: one case = one graph with the complete expected answers of all routines, replayed on every "
             "container kind x id binding x view; non-trivial = the graph has at least one edge. "
             "D* Lite R2: one case = one script (start, goal, k steps, one single or double cost change, steps to "
             "the goal; with MoveTo: the moves are Step / MoveTo letters) on a spec-printed world, or one behaviour of the "
             "spec's state graph; non-trivial = at least one move before the update. R3: one trace = one random graph with the logged answers of all routines, or one "
             "D* Lite history (Step / UpdateWorld rounds); R3 wide: one trace = one graph of 10..40 nodes with the answers "
             "of A* for every ordered pair under every heuristic and view (astar-calls in the stage), the Dijkstra family and Yen.",
        exhaustive=True)


def replay(ctx, path):
    d = json.load(open(path))["data"]
    if "trace" in d:
        ok, st = ctx.validate(d["spec"], d.get("cfgfile", TCFG), d["trace"], subst=d["cfg"],
                              accept_re=d.get("accept_re", r"TRACE-ACCEPTED (\d+)"))
        print("trace accepted" if ok else "trace rejected: " + st.get("detail", "")[:800])
        if not ok:
            print("VIOLATION property=C13 replay=%s" % path)
        return 0 if ok else 1
    one = os.path.join(ctx.work, "one.ndjson")
    with open(one, "w") as fh:
        fh.write(json.dumps(d["failure"]["case"]) + "\n")
    ctx.replay(ctx.build(""), d["area"], one, d["args"], confirm=False)
    return ctx.finish()
